#!/bin/bash
# build.sh <scratchdir>: instrument the current /repo tree and build the simulation binary.
# Prints the path of the binary. Exit 2 on any tooling trouble.
set -u
S="$1"
export PATH=/opt/veriftools/go1.26.8/bin:$PATH GOFLAGS=-mod=mod GOPROXY=off GOSUMDB=off GOTOOLCHAIN=local GONOSUMDB=* GONOSUMCHECK=1
V=/verif
mkdir -p "$S" || exit 2
( cd $V/simgen && go build -o "$S/simgen" . ) >"$S/build.log" 2>&1 || { cat "$S/build.log" >&2; exit 2; }
rsync -a --delete --exclude .git --exclude examples --exclude nexusd --exclude snap /repo/ "$S/nexus/" || exit 2
mkdir -p "$S/nexus/simrt" "$S/nexus/vsim"
cp $V/simrt/*.go "$S/nexus/simrt/" && cp $V/vsim/*.go "$S/nexus/vsim/" || exit 2
( cd "$S/nexus" && "$S/simgen" -dir . -tags verif -report "$S/simgen_report.json" ./wamp/... ./transport/... ./router/... ./client/... ./stdlog/... ./vsim/... ) >>"$S/build.log" 2>&1 || { cat "$S/build.log" >&2; exit 2; }
( cd "$S/nexus" && go test -c -tags verif -vet=off -o "$S/vsim.test" ./vsim ) >>"$S/build.log" 2>&1 || { cat "$S/build.log" >&2; exit 2; }
echo "$S/vsim.test"
