#!/bin/bash
# build.sh <scratchdir> [race]: instrument the current /repo tree and build the simulation binary
# (with "race": additionally vsim-race.test, the same program built with the race detector).
# Prints the path of the binary. Exit 2 on any tooling trouble.
set -u
S="$1"
export PATH=/opt/veriftools/go1.26.8/bin:$PATH GOFLAGS=-mod=mod GOPROXY=off GOSUMDB=off GOTOOLCHAIN=local GONOSUMDB=* GONOSUMCHECK=1
V=/verif
mkdir -p "$S" || exit 2
( cd $V/simgen && go build -o "$S/simgen" . ) >"$S/build.log" 2>&1 || { cat "$S/build.log" >&2; exit 2; }
rsync -a --delete --exclude .git --exclude examples --exclude nexusd --exclude snap "${VERIF_REPO:-/repo}/" "$S/nexus/" || exit 2
( cd "$S/nexus" && go mod edit -require=github.com/anishathalye/porcupine@v1.3.0 ) >>"$S/build.log" 2>&1 || { cat "$S/build.log" >&2; exit 2; }
mkdir -p "$S/nexus/simrt" "$S/nexus/vsim"
cp $V/simrt/*.go "$S/nexus/simrt/" && cp $V/vsim/*.go "$S/nexus/vsim/" || exit 2
( cd "$S/nexus" && "$S/simgen" -dir . -tags verif -report "$S/simgen_report.json" ./wamp/... ./transport/... ./router/... ./client/... ./stdlog/... ./vsim/... ) >>"$S/build.log" 2>&1 || { cat "$S/build.log" >&2; exit 2; }
( cd "$S/nexus" && go test -c -tags verif -vet=off -o "$S/vsim.test" ./vsim ) >>"$S/build.log" 2>&1 || { cat "$S/build.log" >&2; exit 2; }
if [ "${2:-}" = race ]; then
  ( cd "$S/nexus" && CGO_ENABLED=1 go test -c -race -tags verif -vet=off -o "$S/vsim-race.test" ./vsim ) >>"$S/build.log" 2>&1 || { cat "$S/build.log" >&2; exit 2; }
fi
echo "$S/vsim.test"
