#!/bin/bash
# dettest.sh <binary> <prop> <runs>: same seeds in several processes / GOMAXPROCS; hashes must agree
B=$1; P=$2; N=${3:-200}; D=$(dirname $B)
ref=""
for p in 1 4 16 2 16 8; do
  VSIM_HASHES=1 VSIM_OUT=$D/det_$p.json VSIM_PROP=$P VSIM_MAXRUNS=$N VSIM_BUDGET_S=300 GOMAXPROCS=$p $B -test.run TestSim >/dev/null 2>&1
  h=$(python3 -c "
import json,hashlib;a=json.load(open('$D/det_$p.json'));print(hashlib.md5('|'.join(a['hashes']).encode()).hexdigest(), a['runs'])")
  echo "GOMAXPROCS=$p $h"
done
