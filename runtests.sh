#!/bin/bash
# runs the repository's own test suite (guard off) in a private network namespace
cd /repo && export GOFLAGS=-mod=mod GOPROXY=off && unshare -n sh -c 'ip link set lo up; go test -vet=off -count=1 -timeout 25m ./... 2>&1' | grep -v "no test files" | grep "^ok\|^FAIL\|^--- FAIL\|^panic"
