import json,sys,glob
for f in sorted(glob.glob(sys.argv[1])):
    r=json.load(open(f))
    print('=====',f.split('/')[-1], r['strategy'], 'masked' in r['spec'], r['spec'].get('keep'))
    print(' VIOL:',r['violations'][:3])
    print(' SCRIPT:',r['script'])
    for p in (r.get('panics') or [])[:1]: print(p[:1500])
    print(' LIVE:', '\n   '.join(r.get('live') or []))
    n=int(sys.argv[2]) if len(sys.argv)>2 else 15
    print("\n".join((r.get("log_tail") or [])[-n:]) if n>0 else "")
    print(' RLOG:', '\n   '.join((r.get('router_log') or [])[-8:]))
