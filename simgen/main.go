// simgen instruments a scratch copy of nexus (and the harness package copied
// into it) so that every scheduling-relevant construct goes through simrt.
//
// usage: simgen -dir <module root> [-tags verif] [-report file] pkgpattern...
//
// Rewrites are text based: each rewritable node's source range is replaced by
// generated text that embeds the (recursively rewritten) text of its parts.
package main

import (
	"encoding/json"
	"flag"
	"fmt"
	"go/ast"
	"go/token"
	"go/types"
	"os"
	"path/filepath"
	"sort"
	"strings"

	"golang.org/x/tools/go/packages"
)

const simrtPath = "github.com/gammazero/nexus/v3/simrt"

type edit struct {
	start, end int
	text       string
}

type report struct {
	Files          int            `json:"files"`
	Counts         map[string]int `json:"counts"`
	Uninstrumented []string       `json:"uninstrumented_sites"`
}

type rw struct {
	fset *token.FileSet
	info *types.Info
	src  []byte
	file *token.File
	base string
	n    int // unique counter
	used bool
	rep  *report
}

func main() {
	dir := flag.String("dir", ".", "module root")
	tags := flag.String("tags", "verif", "build tags")
	repFile := flag.String("report", "", "write JSON report here")
	flag.Parse()
	cfg := &packages.Config{
		Mode:       packages.NeedName | packages.NeedFiles | packages.NeedCompiledGoFiles | packages.NeedSyntax | packages.NeedTypes | packages.NeedTypesInfo | packages.NeedImports | packages.NeedDeps,
		Dir:        *dir,
		BuildFlags: []string{"-tags=" + *tags},
	}
	pkgs, err := packages.Load(cfg, flag.Args()...)
	if err != nil {
		fmt.Fprintln(os.Stderr, "simgen: load:", err)
		os.Exit(2)
	}
	rep := &report{Counts: map[string]int{}}
	bad := false
	for _, p := range pkgs {
		for _, e := range p.Errors {
			fmt.Fprintln(os.Stderr, "simgen: package error:", e)
			bad = true
		}
	}
	if bad {
		os.Exit(2)
	}
	for _, p := range pkgs {
		if p.PkgPath == simrtPath {
			continue
		}
		for i, f := range p.Syntax {
			name := p.CompiledGoFiles[i]
			if strings.HasSuffix(name, "_test.go") {
				continue
			}
			src, err := os.ReadFile(name)
			if err != nil {
				fmt.Fprintln(os.Stderr, "simgen:", err)
				os.Exit(2)
			}
			r := &rw{fset: p.Fset, info: p.TypesInfo, src: src, file: p.Fset.File(f.Pos()), base: filepath.Base(name), rep: rep}
			out := r.rewriteFile(f)
			if r.used {
				if err := os.WriteFile(name, []byte(out), 0o644); err != nil {
					fmt.Fprintln(os.Stderr, "simgen:", err)
					os.Exit(2)
				}
				rep.Files++
			}
		}
	}
	sort.Strings(rep.Uninstrumented)
	if *repFile != "" {
		b, _ := json.MarshalIndent(rep, "", " ")
		os.WriteFile(*repFile, b, 0o644)
	}
}

func (r *rw) off(p token.Pos) int { return r.file.Offset(p) }

func (r *rw) site(n ast.Node, kind string) string {
	return fmt.Sprintf("%q", fmt.Sprintf("%s:%d/%s", r.base, r.fset.Position(n.Pos()).Line, kind))
}

func (r *rw) uniq() int { r.n++; return r.n }

func (r *rw) count(k string) { r.rep.Counts[k]++; r.used = true }

func (r *rw) flag(n ast.Node, why string) {
	r.rep.Uninstrumented = append(r.rep.Uninstrumented, fmt.Sprintf("%s:%d %s", r.base, r.fset.Position(n.Pos()).Line, why))
}

func (r *rw) rewriteFile(f *ast.File) string {
	var edits []edit
	for _, d := range f.Decls {
		r.collect(d, &edits)
	}
	out := r.apply(r.off(f.Pos()), r.off(f.End()), edits)
	// Package-level channels made at initialisation (var c = make(chan T)) belong to no bubble:
	// a goroutine blocked on one is not durably blocked and the simulated run would hang in
	// real time. They are made anew at the start of every run, inside the run's bubble.
	var reinit []string
	for _, d := range f.Decls {
		gd, ok := d.(*ast.GenDecl)
		if !ok || gd.Tok != token.VAR {
			continue
		}
		for _, sp := range gd.Specs {
			vs, ok := sp.(*ast.ValueSpec)
			if !ok || len(vs.Values) != len(vs.Names) {
				continue
			}
			for i, name := range vs.Names {
				obj := r.info.Defs[name]
				if obj == nil || name.Name == "_" {
					continue
				}
				if _, isChan := obj.Type().Underlying().(*types.Chan); !isChan {
					continue
				}
				call, ok := vs.Values[i].(*ast.CallExpr)
				if !ok {
					continue
				}
				if id, ok := call.Fun.(*ast.Ident); !ok || id.Name != "make" {
					continue
				}
				reinit = append(reinit, name.Name+" = "+string(r.src[r.off(call.Pos()):r.off(call.End())]))
				r.count("global_chan_reinit")
			}
		}
	}
	if len(reinit) > 0 {
		out += "\n\nfunc init() {\n\tsimrt.RegisterGlobalReinit(func() {\n\t\t" + strings.Join(reinit, "\n\t\t") + "\n\t})\n}\n"
	}
	if !r.used {
		return string(r.src)
	}
	// prefix (comments/build tags before the file node) + import injection
	pre := string(r.src[:r.off(f.Pos())])
	post := string(r.src[r.off(f.End()):])
	// insert import after the package clause line
	for _, im := range f.Imports {
		if im.Path.Value == "\""+simrtPath+"\"" {
			return pre + out + post
		}
	}
	pkgEnd := r.off(f.Name.End()) - r.off(f.Pos())
	out = out[:pkgEnd] + "\nimport simrt \"" + simrtPath + "\"\n" + out[pkgEnd:]
	return pre + out + post
}

// text returns n's source with nested rewrites applied.
func (r *rw) text(n ast.Node) string {
	var edits []edit
	r.collect(n, &edits)
	return r.apply(r.off(n.Pos()), r.off(n.End()), edits)
}

func (r *rw) apply(start, end int, edits []edit) string {
	sort.Slice(edits, func(i, j int) bool { return edits[i].start < edits[j].start })
	var b strings.Builder
	p := start
	for _, e := range edits {
		if e.start < p {
			panic(fmt.Sprintf("simgen: overlapping edits in %s at %d", r.base, e.start))
		}
		b.Write(r.src[p:e.start])
		b.WriteString(e.text)
		p = e.end
	}
	b.Write(r.src[p:end])
	return b.String()
}

func (r *rw) collect(n ast.Node, edits *[]edit) {
	if n == nil {
		return
	}
	ast.Inspect(n, func(c ast.Node) bool {
		switch x := c.(type) {
		case *ast.BlockStmt:
			r.collectList(x.List, edits)
			return false
		case *ast.CaseClause:
			for _, e := range x.List {
				r.collect(e, edits)
			}
			r.collectList(x.Body, edits)
			return false
		case *ast.CommClause:
			if x.Comm != nil {
				r.collect(x.Comm, edits)
			}
			r.collectList(x.Body, edits)
			return false
		case *ast.CallExpr:
			// sync.Pool: which object Get returns depends on the Go scheduler
			// (per-P caches) and the garbage collector; the simulator hands
			// out the most recently Put object instead (maximal reuse).
			if sel, ok := x.Fun.(*ast.SelectorExpr); ok {
				if ptr, ok := r.isSync(sel.X, "Pool"); ok {
					switch {
					case sel.Sel.Name == "Get" && len(x.Args) == 0:
						r.count("pool_get")
						*edits = append(*edits, edit{r.off(x.Pos()), r.off(x.End()), "simrt.PoolGet(" + r.addr(sel.X, ptr) + ")"})
						return false
					case sel.Sel.Name == "Put" && len(x.Args) == 1:
						r.count("pool_put")
						*edits = append(*edits, edit{r.off(x.Pos()), r.off(x.End()), "simrt.PoolPut(" + r.addr(sel.X, ptr) + ", " + r.text(x.Args[0]) + ")"})
						return false
					}
				}
			}
		}
		return true
	})
}

func (r *rw) collectList(list []ast.Stmt, edits *[]edit) {
	for _, st := range list {
		inner := st
		for {
			if l, ok := inner.(*ast.LabeledStmt); ok {
				inner = l.Stmt
				continue
			}
			break
		}
		labeled := ""
		if l, ok := st.(*ast.LabeledStmt); ok && inner != st {
			labeled = l.Label.Name
		}
		if rep, ok := r.rewriteStmt(inner, labeled); ok {
			*edits = append(*edits, edit{r.off(inner.Pos()), r.off(inner.End()), rep})
		} else {
			r.collect(inner, edits)
		}
	}
}

// hasRecv reports whether n contains a channel receive outside function literals.
func hasRecv(n ast.Node) bool {
	found := false
	ast.Inspect(n, func(c ast.Node) bool {
		switch x := c.(type) {
		case *ast.FuncLit:
			return false
		case *ast.UnaryExpr:
			if x.Op == token.ARROW {
				found = true
			}
		}
		return !found
	})
	return found
}

func (r *rw) isSync(e ast.Expr, name string) (ptr bool, ok bool) {
	t := r.info.TypeOf(e)
	if t == nil {
		return false, false
	}
	if p, isPtr := t.(*types.Pointer); isPtr {
		t = p.Elem()
		ptr = true
	}
	nt, isNamed := t.(*types.Named)
	if !isNamed {
		return false, false
	}
	obj := nt.Obj()
	if obj.Pkg() == nil || obj.Pkg().Path() != "sync" || obj.Name() != name {
		return false, false
	}
	return ptr, true
}

func (r *rw) addr(e ast.Expr, ptr bool) string {
	if ptr {
		return r.text(e)
	}
	return "&(" + r.text(e) + ")"
}

func pureExpr(e ast.Expr) bool {
	switch x := e.(type) {
	case *ast.Ident:
		return true
	case *ast.SelectorExpr:
		return pureExpr(x.X)
	case *ast.IndexExpr:
		return pureExpr(x.X) && pureExpr(x.Index)
	case *ast.ParenExpr:
		return pureExpr(x.X)
	case *ast.BasicLit:
		return true
	case *ast.StarExpr:
		return pureExpr(x.X)
	}
	return false
}

func inlineArg(e ast.Expr) bool {
	switch x := e.(type) {
	case *ast.BasicLit:
		return true
	case *ast.Ident:
		return x.Name == "nil" || x.Name == "true" || x.Name == "false"
	case *ast.FuncLit:
		return true
	}
	return false
}

func (r *rw) rewriteStmt(st ast.Stmt, labeled string) (string, bool) {
	switch x := st.(type) {
	case *ast.SelectStmt:
		return r.rewriteSelect(x, labeled)
	case *ast.RangeStmt:
		return r.rewriteRange(x)
	case *ast.GoStmt:
		return r.rewriteGo(x)
	case *ast.SendStmt:
		r.count("send")
		return "simrt.Pre(); " + r.text(x) + "; simrt.Yield(" + r.site(x, "send") + ")", true
	case *ast.DeferStmt:
		if sel, ok := x.Call.Fun.(*ast.SelectorExpr); ok && sel.Sel.Name == "Unlock" {
			if ptr, ok := r.isSync(sel.X, "Mutex"); ok {
				r.count("unlock")
				return "defer simrt.Unlock(" + r.addr(sel.X, ptr) + ", " + r.site(x, "unlock") + ")", true
			}
		}
		return "", false
	case *ast.ReturnStmt:
		if hasRecv(x) {
			if len(x.Results) == 1 {
				if u, ok := x.Results[0].(*ast.UnaryExpr); ok && u.Op == token.ARROW {
					r.count("recv")
					v := fmt.Sprintf("__r%d", r.uniq())
					return fmt.Sprintf("simrt.Pre(); %s := %s; simrt.Yield(%s); return %s", v, r.text(u), r.site(x, "recv"), v), true
				}
			}
			r.flag(x, "return containing receive")
		}
		return "", false
	case *ast.ExprStmt:
		if call, ok := x.X.(*ast.CallExpr); ok {
			if id, ok := call.Fun.(*ast.Ident); ok && id.Name == "close" && len(call.Args) == 1 {
				if _, isBuiltin := r.info.Uses[id].(*types.Builtin); isBuiltin {
					r.count("close")
					return r.text(x) + "; simrt.Yield(" + r.site(x, "close") + ")", true
				}
			}
			if sel, ok := call.Fun.(*ast.SelectorExpr); ok {
				if pk, ok := sel.X.(*ast.Ident); ok && sel.Sel.Name == "Sleep" {
					if pn, ok := r.info.Uses[pk].(*types.PkgName); ok && pn.Imported().Path() == "time" {
						// a sleeper woken by the clock parks again, so that the
						// director also decides the order of simultaneous wake-ups
						r.count("sleep")
						return "simrt.Pre(); " + r.text(x) + "; simrt.Yield(" + r.site(x, "sleep") + ")", true
					}
				}
				switch sel.Sel.Name {
				case "Lock":
					if ptr, ok := r.isSync(sel.X, "Mutex"); ok {
						r.count("lock")
						return "simrt.Lock(" + r.addr(sel.X, ptr) + ", " + r.site(x, "lock") + ")", true
					}
				case "Unlock":
					if ptr, ok := r.isSync(sel.X, "Mutex"); ok {
						r.count("unlock")
						return "simrt.Unlock(" + r.addr(sel.X, ptr) + ", " + r.site(x, "unlock") + ")", true
					}
				case "Do":
					if ptr, ok := r.isSync(sel.X, "Once"); ok && len(call.Args) == 1 {
						r.count("once")
						return "simrt.OnceDo(" + r.addr(sel.X, ptr) + ", " + r.site(x, "once") + ", " + r.text(call.Args[0]) + ")", true
					}
				case "Wait":
					if _, ok := r.isSync(sel.X, "WaitGroup"); ok {
						r.count("wgwait")
						return "simrt.Pre(); " + r.text(x) + "; simrt.Yield(" + r.site(x, "wgwait") + ")", true
					}
				}
			}
		}
		if hasRecv(x) {
			r.count("recv")
			return "simrt.Pre(); " + r.text(x) + "; simrt.Yield(" + r.site(x, "recv") + ")", true
		}
		return "", false
	case *ast.AssignStmt:
		if hasRecv(x) {
			r.count("recv")
			return "simrt.Pre(); " + r.text(x) + "; simrt.Yield(" + r.site(x, "recv") + ")", true
		}
		return "", false
	case *ast.DeclStmt:
		if hasRecv(x) {
			r.count("recv")
			return "simrt.Pre(); " + r.text(x) + "; simrt.Yield(" + r.site(x, "recv") + ")", true
		}
		return "", false
	case *ast.IfStmt:
		if (x.Init != nil && hasRecv(x.Init)) || hasRecv(x.Cond) {
			r.flag(x, "receive in if header")
		}
		return "", false
	case *ast.ForStmt:
		if (x.Init != nil && hasRecv(x.Init)) || (x.Cond != nil && hasRecv(x.Cond)) || (x.Post != nil && hasRecv(x.Post)) {
			r.flag(x, "receive in for header")
		}
		return "", false
	case *ast.SwitchStmt:
		if (x.Init != nil && hasRecv(x.Init)) || (x.Tag != nil && hasRecv(x.Tag)) {
			r.flag(x, "receive in switch header")
		}
		return "", false
	}
	return "", false
}

func (r *rw) rewriteGo(g *ast.GoStmt) (string, bool) {
	r.count("go")
	site := r.site(g, "go")
	call := g.Call
	if fl, ok := call.Fun.(*ast.FuncLit); ok && len(call.Args) == 0 {
		return "simrt.Go(" + site + ", " + r.text(fl) + ")", true
	}
	var pre strings.Builder
	args := make([]string, len(call.Args))
	for i, a := range call.Args {
		if inlineArg(a) {
			args[i] = r.text(a)
			continue
		}
		v := fmt.Sprintf("__a%d", r.uniq())
		fmt.Fprintf(&pre, "%s := %s; ", v, r.text(a))
		args[i] = v
	}
	ell := ""
	if call.Ellipsis.IsValid() {
		ell = "..."
	}
	body := r.text(call.Fun) + "(" + strings.Join(args, ", ") + ell + ")"
	return "{ " + pre.String() + "simrt.Go(" + site + ", func() { " + body + " }) }", true
}

func (r *rw) rewriteRange(x *ast.RangeStmt) (string, bool) {
	t := r.info.TypeOf(x.X)
	if t == nil {
		return "", false
	}
	switch t.Underlying().(type) {
	case *types.Chan:
		r.count("range_chan")
		hdr := string(r.src[r.off(x.Pos()) : r.off(x.Body.Lbrace)+1])
		body := r.bodyInner(x.Body)
		return "simrt.Pre(); " + hdr + " simrt.Yield(" + r.site(x, "rangerecv") + ");" + body + "; simrt.Pre() }; simrt.Yield(" + r.site(x, "rangeend") + ")", true
	case *types.Map:
		if !pureExpr(x.X) {
			r.flag(x, "range over non-pure map expression")
			return "", false
		}
		if strings.Contains(string(r.src), "//simgen:nomaps") {
			return "", false
		}
		r.count("range_map")
		id := r.uniq()
		kv := fmt.Sprintf("__k%d", id)
		m := r.text(x.X)
		tok := x.Tok.String() // := or = (or ILLEGAL when no vars)
		var pro strings.Builder
		keyName, valName := "", ""
		if x.Key != nil {
			if idn, ok := x.Key.(*ast.Ident); !ok || idn.Name != "_" {
				keyName = r.text(x.Key)
			}
		}
		if x.Value != nil {
			if idn, ok := x.Value.(*ast.Ident); !ok || idn.Name != "_" {
				valName = r.text(x.Value)
			}
		}
		if keyName != "" {
			fmt.Fprintf(&pro, "%s %s %s; ", keyName, tok, kv)
		}
		if valName != "" {
			if tok == ":=" {
				fmt.Fprintf(&pro, "%s, __ok%d := %s[%s]; if !__ok%d { continue }; ", valName, id, m, kv, id)
			} else {
				fmt.Fprintf(&pro, "var __ok%d bool; %s, __ok%d = %s[%s]; if !__ok%d { continue }; ", id, valName, id, m, kv, id)
			}
		} else {
			fmt.Fprintf(&pro, "if _, __ok%d := %s[%s]; !__ok%d { continue }; ", id, m, kv, id)
		}
		body := r.bodyInner(x.Body)
		return fmt.Sprintf("for _, %s := range simrt.Keys(%s) { %s%s}", kv, m, pro.String(), body), true
	}
	return "", false
}

// bodyInner returns the rewritten text between a block's braces.
func (r *rw) bodyInner(b *ast.BlockStmt) string {
	var edits []edit
	r.collectList(b.List, &edits)
	return r.apply(r.off(b.Lbrace)+1, r.off(b.Rbrace), edits)
}

func (r *rw) listText(list []ast.Stmt, from, to token.Pos) string {
	var edits []edit
	r.collectList(list, &edits)
	return r.apply(r.off(from), r.off(to), edits)
}

func (r *rw) rewriteSelect(s *ast.SelectStmt, labeled string) (string, bool) {
	type cc struct {
		clause *ast.CommClause
		send   *ast.SendStmt
		recv   *ast.UnaryExpr
		lhs    []ast.Expr
		tok    token.Token
	}
	var cases []cc
	var def *ast.CommClause
	for _, c := range s.Body.List {
		cl := c.(*ast.CommClause)
		if cl.Comm == nil {
			def = cl
			continue
		}
		k := cc{clause: cl}
		switch cm := cl.Comm.(type) {
		case *ast.SendStmt:
			k.send = cm
		case *ast.ExprStmt:
			u, ok := unparen(cm.X).(*ast.UnaryExpr)
			if !ok || u.Op != token.ARROW {
				r.flag(s, "select: unknown comm form")
				return "", false
			}
			k.recv = u
		case *ast.AssignStmt:
			if len(cm.Rhs) != 1 {
				r.flag(s, "select: unknown comm form")
				return "", false
			}
			u, ok := unparen(cm.Rhs[0]).(*ast.UnaryExpr)
			if !ok || u.Op != token.ARROW {
				r.flag(s, "select: unknown comm form")
				return "", false
			}
			k.recv = u
			k.lhs = cm.Lhs
			k.tok = cm.Tok
		default:
			r.flag(s, "select: unknown comm form")
			return "", false
		}
		cases = append(cases, k)
	}
	if len(cases) == 0 {
		return "", false // select{} or default only
	}
	if labeled != "" {
		breaks := false
		ast.Inspect(s, func(c ast.Node) bool {
			if b, ok := c.(*ast.BranchStmt); ok && b.Tok == token.BREAK && b.Label != nil && b.Label.Name == labeled {
				breaks = true
			}
			return !breaks
		})
		if breaks {
			r.flag(s, "labeled select with break-to-label left uninstrumented")
			return "", false
		}
	}
	r.count("select")
	if def != nil {
		r.count("select_default")
	}
	id := r.uniq()
	site := r.site(s, "select")
	var b strings.Builder
	b.WriteString("{ ")
	// hoist channel and send-value expressions
	for i, k := range cases {
		if k.send != nil {
			fmt.Fprintf(&b, "__c%d_%d := %s; ", id, i, r.text(k.send.Chan))
			if !inlineArg(k.send.Value) || isFuncLit(k.send.Value) {
				fmt.Fprintf(&b, "__s%d_%d := %s; ", id, i, r.text(k.send.Value))
			}
		} else {
			fmt.Fprintf(&b, "__c%d_%d := %s; ", id, i, r.text(k.recv.X))
			fmt.Fprintf(&b, "__v%d_%d, __ok%d_%d := simrt.Zero(__c%d_%d); _, _ = __v%d_%d, __ok%d_%d; ", id, i, id, i, id, i, id, i, id, i)
		}
	}
	sendVal := func(i int, k cc) string {
		if !inlineArg(k.send.Value) || isFuncLit(k.send.Value) {
			return fmt.Sprintf("__s%d_%d", id, i)
		}
		return r.text(k.send.Value)
	}
	comm := func(i int, k cc) string {
		if k.send != nil {
			return fmt.Sprintf("case __c%d_%d <- %s: __i%d = %d", id, i, sendVal(i, k), id, i)
		}
		return fmt.Sprintf("case __v%d_%d, __ok%d_%d = <-__c%d_%d: __i%d = %d", id, i, id, i, id, i, id, i)
	}
	fmt.Fprintf(&b, "__i%d := -1; ", id)
	poll := func() string {
		var p strings.Builder
		if len(cases) == 1 {
			fmt.Fprintf(&p, "select { %s; default: }; ", comm(0, cases[0]))
			return p.String()
		}
		fmt.Fprintf(&p, "for _, __p%d := range simrt.SelOrder(%s, %d) { switch __p%d { ", id, site, len(cases), id)
		for i, k := range cases {
			fmt.Fprintf(&p, "case %d: select { %s; default: }; ", i, comm(i, k))
		}
		fmt.Fprintf(&p, "}; if __i%d >= 0 { break } }; ", id)
		return p.String()
	}
	if def != nil && len(cases) == 1 && cases[0].send != nil {
		// try-send: queue-full injection point
		r.count("trysend")
		fmt.Fprintf(&b, "if !simrt.Drop(%s, __c%d_0, %s) { %s}; ", site, id, sendVal(0, cases[0]), poll())
	} else {
		b.WriteString(poll())
	}
	if def == nil {
		fmt.Fprintf(&b, "if __i%d < 0 { simrt.Pre(); select { ", id)
		for i, k := range cases {
			b.WriteString(comm(i, k))
			b.WriteString("; ")
		}
		b.WriteString("} }; ")
	}
	fmt.Fprintf(&b, "simrt.Yield(%s); ", site)
	fmt.Fprintf(&b, "switch __i%d { ", id)
	for i, k := range cases {
		fmt.Fprintf(&b, "case %d: ", i)
		if k.recv != nil && len(k.lhs) > 0 {
			l0 := r.text(k.lhs[0])
			if len(k.lhs) == 2 {
				fmt.Fprintf(&b, "%s, %s %s __v%d_%d, __ok%d_%d; ", l0, r.text(k.lhs[1]), k.tok, id, i, id, i)
			} else {
				fmt.Fprintf(&b, "%s %s __v%d_%d; ", l0, k.tok, id, i)
			}
		}
		b.WriteString(r.clauseBody(k.clause))
		b.WriteString("\n")
	}
	if def != nil {
		b.WriteString("default: ")
		b.WriteString(r.clauseBody(def))
		b.WriteString("\n")
	} else {
		b.WriteString("default: panic(\"simrt: select fell through\")\n")
	}
	b.WriteString("} }")
	return b.String(), true
}

func (r *rw) clauseBody(cl *ast.CommClause) string {
	if len(cl.Body) == 0 {
		return ""
	}
	return r.listText(cl.Body, cl.Colon+1, cl.End())
}

func unparen(e ast.Expr) ast.Expr {
	for {
		p, ok := e.(*ast.ParenExpr)
		if !ok {
			return e
		}
		e = p.X
	}
}

func isFuncLit(e ast.Expr) bool { _, ok := e.(*ast.FuncLit); return ok }
