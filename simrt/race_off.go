//go:build !race

package simrt

import "unsafe"

const RaceEnabled = false

func raceDisable()                      {}
func raceEnable()                       {}
func raceAcquire(p unsafe.Pointer)      {}
func raceReleaseMerge(p unsafe.Pointer) {}
