//go:build race

package simrt

import (
	"runtime"
	"unsafe"
)

// RaceEnabled reports whether the binary was built with the race detector.
// In that build the scheduler's own synchronisation (parking, releasing, its
// lock) is hidden from the detector, so the detector sees only the
// happens-before edges the program itself creates: although the simulated
// goroutines run strictly one at a time, two accesses the program did not
// order are still reported.
const RaceEnabled = true

//go:norace
func raceDisable() { runtime.RaceDisable() }

//go:norace
func raceEnable() { runtime.RaceEnable() }

//go:norace
func raceAcquire(p unsafe.Pointer) { runtime.RaceAcquire(p) }

//go:norace
func raceReleaseMerge(p unsafe.Pointer) { runtime.RaceReleaseMerge(p) }
