// Package simrt is the run-time half of the deterministic simulator.
//
// It is copied into the instrumented scratch copy of nexus (as
// github.com/gammazero/nexus/v3/simrt) by the check driver; simgen rewrites
// nexus sources so that every goroutine start, channel operation, select,
// mutex, Once, WaitGroup wait and map iteration goes through this package.
//
// With no scheduler installed (Active()==false) every entry point degrades to
// the plain Go construct it replaced.
//
// Execution model: all goroutines of the system under test run inside one
// testing/synctest bubble. After every potentially blocking operation a
// goroutine *parks* (blocks on its private wake channel). The director (the
// bubble's root goroutine) waits with synctest.Wait until every goroutine is
// durably blocked, then releases exactly one parked goroutine, chosen by a
// seeded picker. So although these are real goroutines, the choice of who
// runs is never the Go scheduler's. When nothing is enabled the director lets
// the bubble's fake clock jump to the next timer.
package simrt

import (
	"fmt"
	"math/rand/v2"
	"os"
	"reflect"
	"runtime"
	"runtime/debug"
	"sort"
	"strconv"
	"strings"
	"sync"
	"sync/atomic"
	"testing/synctest"
	"time"
	"unsafe"
)

// goroutine states
const (
	stRunning int32 = iota
	stParked        // at a yield point; may be released
	stBlocked       // waiting for a simulated mutex / once
	stQuiesce       // actor waiting for quiescence
	stExited
)

// G is one registered goroutine.
type G struct {
	ID      int
	Name    string
	Site    string // last yield site
	wake    chan struct{}
	state   int32
	blockOn any
	prio    int // PCT priority
	Steps   int
	grp     *Group
	held    int  // steps left to hold (delay injection)
	fresh   bool // parked since the director last looked
}

//go:norace
func (g *G) String() string { return fmt.Sprintf("g%d(%s)@%s", g.ID, g.Name, g.Site) }

// Strategy selects how the next goroutine is chosen.
type Strategy int

const (
	StratRandom Strategy = iota // uniform among enabled
	StratPCT                    // random priorities with a few change points
	StratFIFO                   // lowest id first (most "sequential" schedule)
	StratSticky                 // keep running the same goroutine while enabled, switch with prob 1/8
)

//go:norace
func (s Strategy) String() string {
	return [...]string{"random", "pct", "fifo", "sticky"}[s]
}

// Config for one run.
type Config struct {
	Seed     uint64
	Strategy Strategy
	MaxSteps int           // abort the run after this many scheduling steps
	Horizon  time.Duration // virtual-time horizon: idle longer than this ends the run
	PCTDepth int           // number of priority change points
	// DelayProb: probability (per park, in 1/1000) that a goroutine parking at
	// a site is held back for a few steps ("slow node").
	DelayPermille int
	// DropHook, if set, is consulted by instrumented try-sends
	// (select {case ch<-v: default:}); returning true forces the default
	// branch although the queue may have room (queue-full injection).
	DropHook func(site string, ch any, v any) bool
	// FocusMod > 0 enables site-targeted delays: a goroutine parking at a
	// site whose hash (mixed with the seed) is 0 mod FocusMod is held back
	// until nothing else can run (at most FocusBudget times per run). Over
	// many seeds every yield site of the program becomes the focus.
	FocusMod    int
	FocusBudget int
	// KeepLog keeps the textual event log (otherwise only its hash).
	KeepLog bool
	// ShuffleMaps: permute map iteration order with the seed (else canonical).
	ShuffleMaps bool
}

// PanicInfo records a panic caught in a simulated goroutine.
type PanicInfo struct {
	G     string
	Value string
	Stack string
}

// Sched is the scheduler of one run.
type Sched struct {
	cfg Config
	mu  sync.Mutex
	// registry
	gtab    []gslot // goid -> *G, open addressing (no runtime map: see race_on.go)
	all     []*G
	rng     *rand.Rand // director-side choices only
	grng    uint64     // splitmix state for choices drawn on simulated goroutines (select order, map order)
	arrival chan struct{}
	lineBuf []byte

	steps    int
	aborted  atomic.Bool
	abortMsg string
	panics   []PanicInfo
	last     *G

	// pct
	changeAt map[int]bool

	onces  []*onceState
	pools  []*poolState
	groups []*Group

	// event log
	hash     uint64
	logLines []string
	start    time.Time

	// statistics
	TimeAdvances  int
	MultiEnabled  int // steps at which >1 goroutine was enabled
	MaxEnabled    int
	SelMultiReady int
	Drops         int
	Holds         int
	FocusHolds    int
	focusLeft     int
	MapRanges     int
	counters      []counter
	Deadlocked    bool // ended with goroutines blocked but nothing enabled and no timer
	LiveAtEnd     []string
	RootDone      bool
	rootFn        func()
	RootSite      string
	StepLimit     bool
}

// Group ties together the harness goroutines that play one party (one
// simulated client: its reader, its actor, its handlers). It only matters in
// the race-detector build: the harness relies on the scheduler for mutual
// exclusion between its goroutines, which the detector cannot see, so members
// of a group are ordered for the detector at every park/wake (release on
// park, acquire on wake). Goroutines of the code under test never belong to a
// group. The universal group (the scenario root, the test driver that has
// seen everything it waited for) exchanges with every group.
type Group struct {
	tok       int64
	universal bool
}

// NewGroup creates a party.
//
//go:norace
func NewGroup() *Group {
	g := &Group{}
	if s := curSched(); s != nil && RaceEnabled {
		s.lock()
		if len(s.groups) == cap(s.groups) {
			ng := make([]*Group, len(s.groups), 2*cap(s.groups)+16)
			for i := range s.groups {
				ng[i] = s.groups[i]
			}
			s.groups = ng
		}
		s.groups = s.groups[:len(s.groups)+1]
		s.groups[len(s.groups)-1] = g
		s.unlock()
	}
	return g
}

//go:norace
func (s *Sched) fenceRelease(g *G) {
	if !RaceEnabled || g.grp == nil {
		return
	}
	if !g.grp.universal {
		raceReleaseMerge(unsafe.Pointer(&g.grp.tok))
		return
	}
	s.lock()
	n := len(s.groups)
	s.unlock()
	for i := 0; i < n; i++ {
		raceReleaseMerge(unsafe.Pointer(&s.groups[i].tok))
	}
}

//go:norace
func (s *Sched) fenceAcquire(g *G) {
	if !RaceEnabled || g.grp == nil {
		return
	}
	if !g.grp.universal {
		raceAcquire(unsafe.Pointer(&g.grp.tok))
		return
	}
	s.lock()
	n := len(s.groups)
	s.unlock()
	for i := 0; i < n; i++ {
		raceAcquire(unsafe.Pointer(&s.groups[i].tok))
	}
}

type onceState struct {
	o       *sync.Once
	done    bool
	running bool
}

type counter struct {
	name string
	n    int
}

type gslot struct {
	goid int64 // 0 empty, -1 deleted
	g    *G
}

const gtabSize = 1 << 14

// lock/unlock take the scheduler's lock invisibly to the race detector.
//
//go:norace
func (s *Sched) lock() { raceDisable(); s.mu.Lock(); raceEnable() }

//go:norace
func (s *Sched) unlock() { raceDisable(); s.mu.Unlock(); raceEnable() }

//go:norace
func (s *Sched) isAborted() bool { raceDisable(); b := s.aborted.Load(); raceEnable(); return b }

//go:norace
func curSched() *Sched { raceDisable(); s := cur.Load(); raceEnable(); return s }

//go:norace
func (s *Sched) gput(id int64, g *G) {
	s.lock()
	i := int(uint64(id)*0x9e3779b97f4a7c15>>40) & (gtabSize - 1)
	for n := 0; n < gtabSize; n++ {
		if s.gtab[i].goid <= 0 {
			s.gtab[i].goid = id
			s.gtab[i].g = g
			s.unlock()
			return
		}
		i = (i + 1) & (gtabSize - 1)
	}
	s.unlock()
	panic("simrt: goroutine table full")
}

//go:norace
func (s *Sched) gget(id int64, del bool) *G {
	s.lock()
	i := int(uint64(id)*0x9e3779b97f4a7c15>>40) & (gtabSize - 1)
	for n := 0; n < gtabSize; n++ {
		sl := &s.gtab[i]
		if sl.goid == id {
			g := sl.g
			if del {
				sl.goid = -1
				sl.g = nil
			}
			s.unlock()
			return g
		}
		if sl.goid == 0 {
			break
		}
		i = (i + 1) & (gtabSize - 1)
	}
	s.unlock()
	return nil
}

// grand draws from the goroutine-side PRNG (caller need not hold the lock).
//
//go:norace
func (s *Sched) grand(n int) int {
	s.lock()
	s.grng += 0x9e3779b97f4a7c15
	z := s.grng
	s.unlock()
	z = (z ^ (z >> 30)) * 0xbf58476d1ce4e5b9
	z = (z ^ (z >> 27)) * 0x94d049bb133111eb
	z ^= z >> 31
	return int(z % uint64(n))
}

var cur atomic.Pointer[Sched]

// debugEnabled (VSIM_ENABLED=1) adds the enabled set to every step's log line.
var debugEnabled = os.Getenv("VSIM_ENABLED") != ""

// Active reports whether a scheduler is installed.
//
//go:norace
func Active() bool { return curSched() != nil }

// Cur returns the installed scheduler or nil.
//
//go:norace
func Cur() *Sched { return curSched() }

//go:norace
func goid() int64 {
	var buf [40]byte
	n := runtime.Stack(buf[:], false)
	// "goroutine 123 ["
	var id int64
	for i := 10; i < n; i++ {
		c := buf[i]
		if c < '0' || c > '9' {
			break
		}
		id = id*10 + int64(c-'0')
	}
	return id
}

//go:norace
func (s *Sched) self() *G {
	return s.gget(goid(), false)
}

// New creates a scheduler; install it with Run.
//
//go:norace
func New(cfg Config) *Sched {
	if cfg.MaxSteps == 0 {
		cfg.MaxSteps = 200000
	}
	if cfg.Horizon == 0 {
		cfg.Horizon = 30 * time.Hour
	}
	s := &Sched{
		cfg:      cfg,
		rng:      rand.New(rand.NewPCG(cfg.Seed, cfg.Seed^0x9e3779b97f4a7c15)),
		arrival:  make(chan struct{}, 1),
		gtab:     make([]gslot, gtabSize),
		all:      make([]*G, 0, 1024),
		grng:     cfg.Seed ^ 0x243f6a8885a308d3,
		hash:     1469598103934665603,
		changeAt: map[int]bool{},
	}
	s.focusLeft = cfg.FocusBudget
	if cfg.Strategy == StratPCT {
		d := cfg.PCTDepth
		if d == 0 {
			d = 3
		}
		// change points among the first few thousand steps
		for i := 0; i < d; i++ {
			s.changeAt[s.rng.IntN(3000)] = true
		}
	}
	return s
}

// Steps returns the number of scheduling steps so far.
//
//go:norace
func (s *Sched) StepCount() int { return s.steps }

// Hash returns the event-log hash.
//
//go:norace
func (s *Sched) Hash() uint64 { return s.hash }

// LogLines returns the textual event log (if KeepLog).
//
//go:norace
func (s *Sched) LogLines() []string { return s.logLines }

// Panics returns panics caught in simulated goroutines.
//
//go:norace
func (s *Sched) Panics() []PanicInfo { return s.panics }

// Aborted reports whether the run was aborted, and why.
//
//go:norace
func (s *Sched) Aborted() (bool, string) { return s.isAborted(), s.abortMsg }

// Now returns the virtual time elapsed since the run started.
//
//go:norace
func (s *Sched) Elapsed() time.Duration { return time.Since(s.start) }

//go:norace
func (s *Sched) logf(format string, a ...any) {
	s.logLine(fmt.Sprintf(format, a...))
}

// logLine folds one line into the event-log hash (FNV-1a, chained).
//
//go:norace
func (s *Sched) logLine(line string) {
	h := uint64(14695981039346656037)
	x := s.hash
	for i := 0; i < 8; i++ {
		h ^= uint64(byte(x >> (8 * i)))
		h *= 1099511628211
	}
	for i := 0; i < len(line); i++ {
		h ^= uint64(line[i])
		h *= 1099511628211
	}
	s.hash = h
	if s.cfg.KeepLog {
		s.logLines = append(s.logLines, line)
	}
}

// Log adds a harness observation to the event log (and hash). Only call from
// the running goroutine.
//
//go:norace
func Log(format string, a ...any) {
	s := curSched()
	if s == nil {
		return
	}
	s.lock()
	s.logf("  obs t=%v "+format, append([]any{time.Since(s.start)}, a...)...)
	s.unlock()
}

// Count bumps a named statistic counter (rare-condition probes).
//
//go:norace
func Count(name string) {
	s := curSched()
	if s == nil {
		return
	}
	s.count(name)
}

//go:norace
func (s *Sched) count(name string) {
	s.lock()
	for i := range s.counters {
		if s.counters[i].name == name {
			s.counters[i].n++
			s.unlock()
			return
		}
	}
	if len(s.counters) == cap(s.counters) {
		nc := make([]counter, len(s.counters), 2*cap(s.counters)+16)
		for i := range s.counters {
			nc[i] = s.counters[i]
		}
		s.counters = nc
	}
	s.counters = s.counters[:len(s.counters)+1]
	s.counters[len(s.counters)-1] = counter{name, 1}
	s.unlock()
}

// Counters returns the named statistic counters (call after the run).
//
//go:norace
func (s *Sched) Counters() map[string]int {
	m := map[string]int{}
	for _, c := range s.counters {
		m[c.name] = c.n
	}
	return m
}

//go:norace
func (s *Sched) newG(name string) *G {
	s.lock()
	g := &G{ID: len(s.all), Name: name, wake: make(chan struct{}), state: stRunning}
	s.grng += 0x9e3779b97f4a7c15
	g.prio = int((s.grng ^ s.grng>>29) * 0xbf58476d1ce4e5b9 >> 44)
	if len(s.all) == cap(s.all) {
		na := make([]*G, len(s.all), 2*cap(s.all))
		for i := range s.all {
			na[i] = s.all[i]
		}
		s.all = na
	}
	s.all = s.all[:len(s.all)+1]
	s.all[len(s.all)-1] = g
	s.unlock()
	return g
}

//go:norace
func (s *Sched) park(g *G, st int32, on any, site string) {
	s.lock()
	g.state = st
	g.blockOn = on
	g.Site = site
	g.fresh = true
	s.unlock()
	s.fenceRelease(g)
	raceDisable()
	select {
	case s.arrival <- struct{}{}:
	default:
	}
	<-g.wake
	raceEnable()
	s.fenceAcquire(g)
	if s.isAborted() {
		runtime.Goexit()
	}
}

// Yield parks the calling goroutine until the director releases it.
//
//go:norace
func Yield(site string) {
	s := curSched()
	if s == nil || s.isAborted() {
		return
	}
	g := s.self()
	if g == nil {
		return
	}
	s.park(g, stParked, nil, site)
}

// Pre is called before every potentially blocking operation. It only matters
// in the race-detector build: a harness goroutine about to block publishes
// what it did to its party (see Group).
//
//go:norace
func Pre() {
	if !RaceEnabled {
		return
	}
	s := curSched()
	if s == nil {
		return
	}
	if g := s.self(); g != nil && g.grp != nil {
		s.fenceRelease(g)
	}
}

// RaceRelease / RaceAcquire let harness stubs that stand for something the
// detector cannot see (a network connection's kernel buffers) state the
// ordering the real thing provides. No-ops outside the race build.
//
//go:norace
func RaceRelease(p unsafe.Pointer) { raceReleaseMerge(p) }

//go:norace
func RaceAcquire(p unsafe.Pointer) { raceAcquire(p) }

// WaitQuiescent parks the calling (harness) goroutine until no other
// goroutine is enabled at the current virtual instant.
//
//go:norace
func WaitQuiescent(site string) {
	s := curSched()
	if s == nil || s.isAborted() {
		return
	}
	g := s.self()
	if g == nil {
		return
	}
	s.park(g, stQuiesce, nil, site)
}

// Go starts fn as a simulated goroutine.
//
//go:norace
func Go(site string, fn func()) {
	s := curSched()
	if s == nil || s.isAborted() {
		go fn()
		return
	}
	if s.self() == nil && s.steps > 0 {
		// started from an unregistered goroutine (e.g. a timer callback):
		// still register, ids are allocated under the lock.
	}
	g := s.newG(site)
	go s.runG(g, fn)
}

// GoIn starts fn as a simulated harness goroutine belonging to party grp.
//
//go:norace
func GoIn(grp *Group, site string, fn func()) {
	s := curSched()
	if s == nil || s.isAborted() {
		go fn()
		return
	}
	g := s.newG(site)
	g.grp = grp
	go s.runG(g, fn)
}

//go:norace
func (s *Sched) runG(g *G, fn func()) {
	s.gput(goid(), g)
	defer s.exitG(g)
	s.park(g, stParked, nil, "start:"+g.Name)
	fn()
}

// exitG is runG's deferred epilogue (a named method: closures inside a
// //go:norace function are instrumented all the same).
//
//go:norace
func (s *Sched) exitG(g *G) {
	if r := recover(); r != nil {
		s.lock()
		s.panics = append(s.panics, PanicInfo{G: g.Name, Value: fmt.Sprint(r), Stack: string(debug.Stack())})
		s.logf("  PANIC in %s: %v", g.Name, r)
		s.unlock()
		s.abort("panic in " + g.Name + ": " + fmt.Sprint(r))
	}
	s.gget(goid(), true)
	s.fenceRelease(g)
	s.lock()
	g.state = stExited
	s.unlock()
	raceDisable()
	select {
	case s.arrival <- struct{}{}:
	default:
	}
	raceEnable()
}

//go:norace
func (s *Sched) abort(msg string) {
	if s.aborted.CompareAndSwap(false, true) {
		s.abortMsg = msg
	}
}

// Abort ends the run from harness code (e.g. on an invariant violation).
//
//go:norace
func Abort(msg string) {
	if s := curSched(); s != nil {
		s.abort(msg)
	}
}

// Live returns registered goroutines that have not exited, with their state.
//
//go:norace
func (s *Sched) Live() []string {
	s.lock()
	defer s.unlock()
	var out []string
	for _, g := range s.all {
		if g.state != stExited {
			out = append(out, fmt.Sprintf("%s[%s]", g.String(), stName(g.state)))
		}
	}
	return out
}

//go:norace
func stName(st int32) string {
	return [...]string{"blocked-in-op", "parked", "mutex-blocked", "quiesce-wait", "exited"}[st]
}

// Run executes root as the first simulated goroutine and drives the schedule
// until the system is idle. It must be called from the root goroutine of a
// synctest bubble. It returns when root has returned and nothing more can
// happen before the horizon, or when the run is aborted.
//
//go:norace
func (s *Sched) Run(root func()) {
	if !cur.CompareAndSwap(nil, s) {
		panic("simrt: scheduler already installed")
	}
	defer cur.Store(nil)
	s.start = time.Now()
	g := s.newG("root")
	g.grp = &Group{universal: true}
	s.rootFn = root
	go s.runG(g, s.runRoot)
	defer s.noteRoot(g)
	// the director's own synchronisation is invisible to the race detector
	raceDisable()
	defer raceEnable()

	for {
		synctest.Wait()
		if s.isAborted() {
			break
		}
		s.lock()
		var enabled, quiesce []*G
		live := 0
		for _, g := range s.all {
			switch g.state {
			case stParked:
				enabled = append(enabled, g)
				live++
			case stQuiesce:
				quiesce = append(quiesce, g)
				live++
			case stExited:
			default:
				live++
			}
		}
		if live == 0 {
			s.unlock()
			break
		}
		if s.steps >= s.cfg.MaxSteps {
			s.StepLimit = true
			s.unlock()
			s.abort("step limit")
			break
		}
		var pick *G
		if len(enabled) > 0 {
			pick = s.choose(enabled)
		} else if len(quiesce) > 0 {
			pick = quiesce[0]
			if len(quiesce) > 1 {
				pick = quiesce[s.rng.IntN(len(quiesce))]
			}
		}
		if pick != nil {
			s.steps++
			pick.Steps++
			pick.state = stRunning
			s.last = pick
			b := s.lineBuf[:0]
			b = strconv.AppendInt(b, int64(s.steps), 10)
			b = append(b, " t="...)
			b = append(b, time.Since(s.start).String()...)
			b = append(b, " g"...)
			b = strconv.AppendInt(b, int64(pick.ID), 10)
			b = append(b, ' ')
			b = append(b, pick.Site...)
			if debugEnabled {
				b = append(b, " en="...)
				for _, e := range enabled {
					b = strconv.AppendInt(b, int64(e.ID), 10)
					if e.held > 0 {
						b = append(b, 'h')
					}
					b = append(b, ',')
				}
			}
			s.lineBuf = b
			s.logLine(string(b))
			s.unlock()
			pick.wake <- struct{}{}
			continue
		}
		s.unlock()
		// Nothing enabled: let virtual time advance to the next timer.
		select {
		case <-s.arrival:
		default:
		}
		before := time.Now()
		t := time.NewTimer(s.cfg.Horizon)
		select {
		case <-s.arrival:
			t.Stop()
			s.TimeAdvances++
			if time.Since(before) == 0 {
				// woken without time passing: a goroutine exited or parked late
			}
		case <-t.C:
			// A goroutine's own timer may have fired at the very same
			// instant as the horizon timer: look again before giving up.
			synctest.Wait()
			s.lock()
			again := false
			for _, g := range s.all {
				if g.state == stParked || g.state == stQuiesce {
					again = true
				}
			}
			s.unlock()
			if again {
				s.TimeAdvances++
				continue
			}
			// Idle until the horizon: nothing will ever happen again.
			if !s.RootDone || live > 0 {
				s.Deadlocked = true
				if os.Getenv("VSIM_STACKS") != "" {
					buf := make([]byte, 1<<20)
					os.Stderr.Write(buf[:runtime.Stack(buf, true)])
				}
			}
			s.lock()
			s.logLine("idle-to-horizon live=" + strconv.Itoa(live))
			s.unlock()
			goto done
		}
	}
done:
	raceEnable()
	s.LiveAtEnd = s.Live()
	raceDisable()
	// Tear down: release parked goroutines so they can Goexit.
	s.abort("run finished")
	for {
		synctest.Wait()
		s.lock()
		var rel []*G
		for _, g := range s.all {
			if g.state == stParked || g.state == stBlocked || g.state == stQuiesce {
				rel = append(rel, g)
				g.state = stRunning
			}
		}
		s.unlock()
		if len(rel) == 0 {
			break
		}
		for _, g := range rel {
			g.wake <- struct{}{}
		}
	}
}

//go:norace
func (s *Sched) runRoot() { s.rootFn(); s.RootDone = true }

//go:norace
func (s *Sched) noteRoot(g *G) { s.RootSite = g.Site }

// choose picks among enabled goroutines (sorted by id, as s.all is).
//
//go:norace
func (s *Sched) choose(enabled []*G) *G {
	// apply holds (delay injection): held goroutines are skipped while
	// anything else is enabled.
	if s.cfg.FocusMod > 0 {
		for _, g := range enabled {
			if g.fresh && s.focusLeft > 0 && siteHash(g.Site, s.cfg.Seed)%uint64(s.cfg.FocusMod) == 0 {
				g.held = 4000
				s.focusLeft--
				s.FocusHolds++
				g.fresh = false
			}
		}
	}
	if s.cfg.DelayPermille > 0 || s.cfg.FocusMod > 0 {
		var free []*G
		for _, g := range enabled {
			// hold decisions are drawn here, by the director, in id order:
			// goroutines may park concurrently and must not draw themselves.
			if g.fresh {
				g.fresh = false
				if g.held == 0 && s.cfg.DelayPermille > 0 && s.rng.IntN(1000) < s.cfg.DelayPermille {
					// mostly short stalls, sometimes long enough for a whole
					// procedure (a shutdown, a kill) to complete meanwhile
					switch s.rng.IntN(4) {
					case 0:
						g.held = 1 + s.rng.IntN(1500)
					case 1:
						g.held = 1 + s.rng.IntN(200)
					default:
						g.held = 1 + s.rng.IntN(40)
					}
					s.Holds++
				}
			}
			if g.held > 0 {
				g.held--
			} else {
				free = append(free, g)
			}
		}
		if len(free) > 0 {
			enabled = free
		}
	}
	n := len(enabled)
	if n > 1 {
		s.MultiEnabled++
	}
	if n > s.MaxEnabled {
		s.MaxEnabled = n
	}
	if n == 1 {
		return enabled[0]
	}
	switch s.cfg.Strategy {
	case StratFIFO:
		return enabled[0]
	case StratSticky:
		if s.last != nil && s.rng.IntN(8) != 0 {
			for _, g := range enabled {
				if g == s.last {
					return g
				}
			}
		}
		return enabled[s.rng.IntN(n)]
	case StratPCT:
		if s.changeAt[s.steps] && s.last != nil {
			s.last.prio = -s.steps // lowest so far
		}
		best := enabled[0]
		for _, g := range enabled[1:] {
			if g.prio > best.prio {
				best = g
			}
		}
		return best
	default:
		return enabled[s.rng.IntN(n)]
	}
}

// ---- mutex / once emulation -------------------------------------------

// Lock acquires m without ever blocking non-durably.
//
//go:norace
func Lock(m *sync.Mutex, site string) {
	s := curSched()
	var g *G
	if s != nil {
		g = s.self()
	}
	if g == nil {
		m.Lock()
		return
	}
	for !m.TryLock() {
		if s.isAborted() {
			runtime.Goexit()
		}
		s.park(g, stBlocked, m, site)
	}
}

// Unlock releases m and enables goroutines waiting for it.
//
//go:norace
func Unlock(m *sync.Mutex, site ...string) {
	m.Unlock()
	s := curSched()
	if s == nil {
		return
	}
	s.lock()
	for _, g := range s.all {
		if g.state == stBlocked && g.blockOn == any(m) {
			g.state = stParked
			g.blockOn = nil
		}
	}
	s.unlock()
	// Releasing a lock is a visible operation: yield after it, so that
	// whatever follows (typically a channel operation) is not glued to the
	// critical section into one atomic step.
	if !s.isAborted() {
		if g := s.self(); g != nil {
			st := "unlock"
			if len(site) > 0 {
				st = site[0]
			}
			s.park(g, stParked, nil, st)
		}
	}
}

// OnceDo is sync.Once.Do for simulated goroutines.
//
//go:norace
func OnceDo(o *sync.Once, site string, f func()) {
	s := curSched()
	var g *G
	if s != nil {
		g = s.self()
	}
	if g == nil {
		o.Do(f)
		return
	}
	s.lock()
	var st *onceState
	for _, x := range s.onces {
		if x.o == o {
			st = x
		}
	}
	if st == nil {
		st = &onceState{o: o}
		if len(s.onces) == cap(s.onces) {
			no := make([]*onceState, len(s.onces), 2*cap(s.onces)+16)
			for i := range s.onces {
				no[i] = s.onces[i]
			}
			s.onces = no
		}
		s.onces = s.onces[:len(s.onces)+1]
		s.onces[len(s.onces)-1] = st
	}
	for st.running {
		s.unlock()
		s.park(g, stBlocked, o, site)
		s.lock()
	}
	if st.done {
		s.unlock()
		// what sync.Once guarantees: f's completion happens before any Do returns
		raceAcquire(unsafe.Pointer(o))
		return
	}
	st.running = true
	s.unlock()
	defer s.onceDone(o, st)
	f()
}

//go:norace
func (s *Sched) onceDone(o *sync.Once, st *onceState) {
	raceReleaseMerge(unsafe.Pointer(o))
	s.lock()
	st.running = false
	st.done = true
	for _, g := range s.all {
		if g.state == stBlocked && g.blockOn == any(o) {
			g.state = stParked
			g.blockOn = nil
		}
	}
	s.unlock()
}

// ---- sync.Pool ------------------------------------------------------------

type poolState struct {
	p     *sync.Pool
	items []any
}

// PoolGet replaces (*sync.Pool).Get in instrumented code: the most recently
// Put object, else New(). Deterministic, and the most reuse a real pool could
// ever show.
//
//go:norace
func PoolGet(p *sync.Pool) any {
	s := curSched()
	if s == nil || s.self() == nil {
		return p.Get()
	}
	var x any
	got := false
	s.lock()
	for _, ps := range s.pools {
		if ps.p == p && len(ps.items) > 0 {
			x = ps.items[len(ps.items)-1]
			ps.items = ps.items[:len(ps.items)-1]
			got = true
		}
	}
	s.unlock()
	if got {
		s.count("pool_object_reused")
		raceAcquire(unsafe.Pointer(p)) // as the real pool: Put happens before the Get that returns the object
		return x
	}
	if p.New != nil {
		return p.New()
	}
	return nil
}

// PoolPut replaces (*sync.Pool).Put.
//
//go:norace
func PoolPut(p *sync.Pool, x any) {
	s := curSched()
	if s == nil || s.self() == nil {
		p.Put(x)
		return
	}
	if x == nil {
		return
	}
	raceReleaseMerge(unsafe.Pointer(p))
	s.lock()
	var st *poolState
	for _, ps := range s.pools {
		if ps.p == p {
			st = ps
		}
	}
	if st == nil {
		st = &poolState{p: p, items: make([]any, 0, 64)}
		if len(s.pools) == cap(s.pools) {
			np := make([]*poolState, len(s.pools), 2*cap(s.pools)+8)
			for i := range s.pools {
				np[i] = s.pools[i]
			}
			s.pools = np
		}
		s.pools = s.pools[:len(s.pools)+1]
		s.pools[len(s.pools)-1] = st
	}
	if len(st.items) < cap(st.items) {
		st.items = st.items[:len(st.items)+1]
		st.items[len(st.items)-1] = x
	}
	s.unlock()
}

// ---- select ------------------------------------------------------------

// SelOrder returns the order in which a rewritten select polls its cases.
//
//go:norace
func SelOrder(site string, n int) []int {
	p := make([]int, n)
	for i := range p {
		p[i] = i
	}
	s := curSched()
	if s == nil || s.self() == nil {
		rand.Shuffle(n, func(i, j int) { p[i], p[j] = p[j], p[i] })
		return p
	}
	for i := n - 1; i > 0; i-- {
		j := s.grand(i + 1)
		p[i], p[j] = p[j], p[i]
	}
	return p
}

// Zero returns the zero value of a channel's element type; used by
// rewritten selects to declare receive temporaries without naming the type.
//
//go:norace
func Zero[T any](c <-chan T) (v T, ok bool) { return }

// Drop is consulted by rewritten try-sends; true means "behave as if the
// queue were full".
//
//go:norace
func Drop(site string, ch any, v any) bool {
	s := curSched()
	if s == nil || s.cfg.DropHook == nil || s.isAborted() {
		return false
	}
	if s.self() == nil {
		return false
	}
	if s.cfg.DropHook(site, ch, v) {
		s.lock()
		s.Drops++
		s.logLine("  drop-injected " + site)
		s.unlock()
		return true
	}
	return false
}

// ---- map iteration ------------------------------------------------------

// Keys returns m's keys in a canonical order (then seed-permuted when
// ShuffleMaps is on), replacing Go's randomised iteration order.
//
//go:norace
func Keys[M ~map[K]V, K comparable, V any](m M) []K {
	n := len(m)
	if n == 0 {
		return nil
	}
	keys := make([]K, 0, n)
	for k := range m {
		keys = append(keys, k)
	}
	if n == 1 {
		return keys
	}
	s := curSched()
	if s == nil || s.self() == nil {
		return keys
	}
	sk := make([]string, n)
	// pointer-like keys get a first-seen rank; registering in the random
	// iteration order above would be nondeterministic, so rank unseen keys
	// only after sorting the already-known ones: unseen pointers are ranked
	// by their position among unseen, which is only deterministic if there
	// is at most one unseen key per call -- therefore pointer keys must be
	// registered when created (see RegisterPtr) or they fall back to
	// formatting their pointee.
	for i, k := range keys {
		sk[i] = s.keyString(any(k))
	}
	idx := make([]int, n)
	for i := range idx {
		idx[i] = i
	}
	sort.SliceStable(idx, func(a, b int) bool { return sk[idx[a]] < sk[idx[b]] })
	out := make([]K, n)
	for i, j := range idx {
		out[i] = keys[j]
	}
	s.lock()
	s.MapRanges++
	s.unlock()
	if s.cfg.ShuffleMaps {
		for i := n - 1; i > 0; i-- {
			j := s.grand(i + 1)
			out[i], out[j] = out[j], out[i]
		}
	}
	return out
}

// KeyStringer lets the harness teach simrt how to order exotic keys.
var KeyStringer func(k any) (string, bool)

//go:norace
func (s *Sched) keyString(k any) string {
	if KeyStringer != nil {
		if str, ok := KeyStringer(k); ok {
			return str
		}
	}
	v := reflect.ValueOf(k)
	switch v.Kind() {
	case reflect.String:
		return v.String()
	case reflect.Int, reflect.Int8, reflect.Int16, reflect.Int32, reflect.Int64:
		return pad21(uint64(v.Int() + (1 << 62)))
	case reflect.Uint, reflect.Uint8, reflect.Uint16, reflect.Uint32, reflect.Uint64:
		return pad21(v.Uint())
	case reflect.Bool:
		return strconv.FormatBool(v.Bool())
	case reflect.Struct:
		var b strings.Builder
		for i := 0; i < v.NumField(); i++ {
			f := v.Field(i)
			switch f.Kind() {
			case reflect.String:
				b.WriteString(f.String())
			case reflect.Int, reflect.Int8, reflect.Int16, reflect.Int32, reflect.Int64:
				b.WriteString(pad21(uint64(f.Int() + (1 << 62))))
			case reflect.Uint, reflect.Uint8, reflect.Uint16, reflect.Uint32, reflect.Uint64:
				b.WriteString(pad21(f.Uint()))
			default:
				b.WriteString("?" + f.Kind().String())
				s.noteUnordered()
			}
			b.WriteByte('|')
		}
		return b.String()
	case reflect.Pointer:
		if v.IsNil() {
			return "nil"
		}
		e := v.Elem()
		if e.Kind() == reflect.Struct {
			for _, name := range []string{"ID", "id", "Id"} {
				f := e.FieldByName(name)
				if !f.IsValid() {
					continue
				}
				switch f.Kind() {
				case reflect.Uint, reflect.Uint8, reflect.Uint16, reflect.Uint32, reflect.Uint64:
					return pad21(f.Uint())
				case reflect.Int, reflect.Int8, reflect.Int16, reflect.Int32, reflect.Int64:
					return pad21(uint64(f.Int() + (1 << 62)))
				case reflect.String:
					return f.String()
				}
			}
		}
	}
	s.noteUnordered()
	return "?"
}

//go:norace
func pad21(u uint64) string {
	var b [21]byte
	for i := 20; i >= 0; i-- {
		b[i] = byte('0' + u%10)
		u /= 10
	}
	return string(b[:])
}

//go:norace
func (s *Sched) noteUnordered() {
	s.count("unordered_map_key")
}

//go:norace
func siteHash(site string, seed uint64) uint64 {
	h := seed ^ 0xcbf29ce484222325
	for i := 0; i < len(site); i++ {
		h ^= uint64(site[i])
		h *= 1099511628211
	}
	h ^= h >> 29
	h *= 0xbf58476d1ce4e5b9
	h ^= h >> 32
	return h
}


// ---- package-level channels ---------------------------------------------

var globalReinits []func()

// RegisterGlobalReinit is called from generated init functions of instrumented
// packages that declare package-level channels with a make() initialiser.
func RegisterGlobalReinit(f func()) { globalReinits = append(globalReinits, f) }

// ReinitGlobals makes those channels anew; called at the start of every run,
// inside the run's bubble (a channel made at program initialisation belongs to
// no bubble, and blocking on it would not count as durably blocked).
func ReinitGlobals() {
	for _, f := range globalReinits {
		f()
	}
}
