// Package simrt is the run-time half of the deterministic simulator.
//
// It is copied into the instrumented scratch copy of nexus (as
// github.com/gammazero/nexus/v3/simrt) by the check driver; simgen rewrites
// nexus sources so that every goroutine start, channel operation, select,
// mutex, Once, WaitGroup wait and map iteration goes through this package.
//
// With no scheduler installed (Active()==false) every entry point degrades to
// the plain Go construct it replaced.
//
// Execution model: all goroutines of the system under test run inside one
// testing/synctest bubble. After every potentially blocking operation a
// goroutine *parks* (blocks on its private wake channel). The director (the
// bubble's root goroutine) waits with synctest.Wait until every goroutine is
// durably blocked, then releases exactly one parked goroutine, chosen by a
// seeded picker. So although these are real goroutines, the choice of who
// runs is never the Go scheduler's. When nothing is enabled the director lets
// the bubble's fake clock jump to the next timer.
package simrt

import (
	"fmt"
	"hash/fnv"
	"math/rand/v2"
	"reflect"
	"runtime"
	"runtime/debug"
	"sort"
	"strings"
	"sync"
	"sync/atomic"
	"testing/synctest"
	"time"
)

// goroutine states
const (
	stRunning int32 = iota
	stParked        // at a yield point; may be released
	stBlocked       // waiting for a simulated mutex / once
	stQuiesce       // actor waiting for quiescence
	stExited
)

// G is one registered goroutine.
type G struct {
	ID      int
	Name    string
	Site    string // last yield site
	wake    chan struct{}
	state   int32
	blockOn any
	prio    int // PCT priority
	Steps   int
	held    int // steps left to hold (delay injection)
	fresh   bool // parked since the director last looked
}

func (g *G) String() string { return fmt.Sprintf("g%d(%s)@%s", g.ID, g.Name, g.Site) }

// Strategy selects how the next goroutine is chosen.
type Strategy int

const (
	StratRandom Strategy = iota // uniform among enabled
	StratPCT                    // random priorities with a few change points
	StratFIFO                   // lowest id first (most "sequential" schedule)
	StratSticky                 // keep running the same goroutine while enabled, switch with prob 1/8
)

func (s Strategy) String() string {
	return [...]string{"random", "pct", "fifo", "sticky"}[s]
}

// Config for one run.
type Config struct {
	Seed     uint64
	Strategy Strategy
	MaxSteps int           // abort the run after this many scheduling steps
	Horizon  time.Duration // virtual-time horizon: idle longer than this ends the run
	PCTDepth int           // number of priority change points
	// DelayProb: probability (per park, in 1/1000) that a goroutine parking at
	// a site is held back for a few steps ("slow node").
	DelayPermille int
	// DropHook, if set, is consulted by instrumented try-sends
	// (select {case ch<-v: default:}); returning true forces the default
	// branch although the queue may have room (queue-full injection).
	DropHook func(site string, ch any, v any) bool
	// FocusMod > 0 enables site-targeted delays: a goroutine parking at a
	// site whose hash (mixed with the seed) is 0 mod FocusMod is held back
	// until nothing else can run (at most FocusBudget times per run). Over
	// many seeds every yield site of the program becomes the focus.
	FocusMod    int
	FocusBudget int
	// KeepLog keeps the textual event log (otherwise only its hash).
	KeepLog bool
	// ShuffleMaps: permute map iteration order with the seed (else canonical).
	ShuffleMaps bool
}

// PanicInfo records a panic caught in a simulated goroutine.
type PanicInfo struct {
	G     string
	Value string
	Stack string
}

// Sched is the scheduler of one run.
type Sched struct {
	cfg Config
	mu  sync.Mutex
	// registry
	byGoid  sync.Map // int64 -> *G
	all     []*G
	rng     *rand.Rand
	arrival chan struct{}

	steps    int
	aborted  atomic.Bool
	abortMsg string
	panics   []PanicInfo
	last     *G

	// pct
	changeAt map[int]bool

	onceMu sync.Mutex
	onces  map[*sync.Once]*onceState
	ptrIDs map[any]int // first-seen rank for pointer-like map keys

	// event log
	hash     uint64
	logLines []string
	start    time.Time

	// statistics
	TimeAdvances  int
	MultiEnabled  int // steps at which >1 goroutine was enabled
	MaxEnabled    int
	SelMultiReady int
	Drops         int
	Holds         int
	FocusHolds    int
	focusLeft     int
	MapRanges     int
	Counters      map[string]int
	Deadlocked    bool // ended with goroutines blocked but nothing enabled and no timer
	LiveAtEnd     []string
	RootDone      bool
	RootSite      string
	StepLimit     bool
}

type onceState struct {
	done    bool
	running bool
}

var cur atomic.Pointer[Sched]

// Active reports whether a scheduler is installed.
func Active() bool { return cur.Load() != nil }

// Cur returns the installed scheduler or nil.
func Cur() *Sched { return cur.Load() }

func goid() int64 {
	var buf [40]byte
	n := runtime.Stack(buf[:], false)
	// "goroutine 123 ["
	var id int64
	for i := 10; i < n; i++ {
		c := buf[i]
		if c < '0' || c > '9' {
			break
		}
		id = id*10 + int64(c-'0')
	}
	return id
}

func (s *Sched) self() *G {
	if v, ok := s.byGoid.Load(goid()); ok {
		return v.(*G)
	}
	return nil
}

// New creates a scheduler; install it with Run.
func New(cfg Config) *Sched {
	if cfg.MaxSteps == 0 {
		cfg.MaxSteps = 200000
	}
	if cfg.Horizon == 0 {
		cfg.Horizon = 30 * time.Hour
	}
	s := &Sched{
		cfg:      cfg,
		rng:      rand.New(rand.NewPCG(cfg.Seed, cfg.Seed^0x9e3779b97f4a7c15)),
		arrival:  make(chan struct{}, 1),
		onces:    map[*sync.Once]*onceState{},
		ptrIDs:   map[any]int{},
		Counters: map[string]int{},
		hash:     1469598103934665603,
		changeAt: map[int]bool{},
	}
	s.focusLeft = cfg.FocusBudget
	if cfg.Strategy == StratPCT {
		d := cfg.PCTDepth
		if d == 0 {
			d = 3
		}
		// change points among the first few thousand steps
		for i := 0; i < d; i++ {
			s.changeAt[s.rng.IntN(3000)] = true
		}
	}
	return s
}

// Rand gives harness code (running as a simulated goroutine, or before the
// run starts) access to the run's PRNG. Must only be used by the one running
// goroutine.
func (s *Sched) Rand() *rand.Rand { return s.rng }

// Steps returns the number of scheduling steps so far.
func (s *Sched) StepCount() int { return s.steps }

// Hash returns the event-log hash.
func (s *Sched) Hash() uint64 { return s.hash }

// LogLines returns the textual event log (if KeepLog).
func (s *Sched) LogLines() []string { return s.logLines }

// Panics returns panics caught in simulated goroutines.
func (s *Sched) Panics() []PanicInfo { return s.panics }

// Aborted reports whether the run was aborted, and why.
func (s *Sched) Aborted() (bool, string) { return s.aborted.Load(), s.abortMsg }

// Now returns the virtual time elapsed since the run started.
func (s *Sched) Elapsed() time.Duration { return time.Since(s.start) }

func (s *Sched) logf(format string, a ...any) {
	line := fmt.Sprintf(format, a...)
	h := fnv.New64a()
	var b [8]byte
	for i := 0; i < 8; i++ {
		b[i] = byte(s.hash >> (8 * i))
	}
	h.Write(b[:])
	h.Write([]byte(line))
	s.hash = h.Sum64()
	if s.cfg.KeepLog {
		s.logLines = append(s.logLines, line)
	}
}

// Log adds a harness observation to the event log (and hash). Only call from
// the running goroutine.
func Log(format string, a ...any) {
	s := cur.Load()
	if s == nil {
		return
	}
	s.mu.Lock()
	s.logf("  obs t=%v "+format, append([]any{time.Since(s.start)}, a...)...)
	s.mu.Unlock()
}

// Count bumps a named statistic counter (rare-condition probes).
func Count(name string) {
	s := cur.Load()
	if s == nil {
		return
	}
	s.mu.Lock()
	s.Counters[name]++
	s.mu.Unlock()
}

func (s *Sched) newG(name string) *G {
	s.mu.Lock()
	g := &G{ID: len(s.all), Name: name, wake: make(chan struct{}), state: stRunning}
	g.prio = s.rng.IntN(1 << 20)
	s.all = append(s.all, g)
	s.mu.Unlock()
	return g
}

func (s *Sched) park(g *G, st int32, on any, site string) {
	s.mu.Lock()
	g.state = st
	g.blockOn = on
	g.Site = site
	g.fresh = true
	s.mu.Unlock()
	select {
	case s.arrival <- struct{}{}:
	default:
	}
	<-g.wake
	if s.aborted.Load() {
		runtime.Goexit()
	}
}

// Yield parks the calling goroutine until the director releases it.
func Yield(site string) {
	s := cur.Load()
	if s == nil || s.aborted.Load() {
		return
	}
	g := s.self()
	if g == nil {
		return
	}
	s.park(g, stParked, nil, site)
}

// WaitQuiescent parks the calling (harness) goroutine until no other
// goroutine is enabled at the current virtual instant.
func WaitQuiescent(site string) {
	s := cur.Load()
	if s == nil || s.aborted.Load() {
		return
	}
	g := s.self()
	if g == nil {
		return
	}
	s.park(g, stQuiesce, nil, site)
}

// Go starts fn as a simulated goroutine.
func Go(site string, fn func()) {
	s := cur.Load()
	if s == nil || s.aborted.Load() {
		go fn()
		return
	}
	if s.self() == nil && s.steps > 0 {
		// started from an unregistered goroutine (e.g. a timer callback):
		// still register, ids are allocated under the lock.
	}
	g := s.newG(site)
	go s.runG(g, fn)
}

func (s *Sched) runG(g *G, fn func()) {
	s.byGoid.Store(goid(), g)
	defer func() {
		if r := recover(); r != nil {
			s.mu.Lock()
			s.panics = append(s.panics, PanicInfo{G: g.Name, Value: fmt.Sprint(r), Stack: string(debug.Stack())})
			s.logf("  PANIC in %s: %v", g.Name, r)
			s.mu.Unlock()
			s.abort("panic in " + g.Name + ": " + fmt.Sprint(r))
		}
		s.byGoid.Delete(goid())
		s.mu.Lock()
		g.state = stExited
		s.mu.Unlock()
		select {
		case s.arrival <- struct{}{}:
		default:
		}
	}()
	s.park(g, stParked, nil, "start:"+g.Name)
	fn()
}

func (s *Sched) abort(msg string) {
	if s.aborted.CompareAndSwap(false, true) {
		s.abortMsg = msg
	}
}

// Abort ends the run from harness code (e.g. on an invariant violation).
func Abort(msg string) {
	if s := cur.Load(); s != nil {
		s.abort(msg)
	}
}

// Live returns registered goroutines that have not exited, with their state.
func (s *Sched) Live() []string {
	s.mu.Lock()
	defer s.mu.Unlock()
	var out []string
	for _, g := range s.all {
		if g.state != stExited {
			out = append(out, fmt.Sprintf("%s[%s]", g.String(), stName(g.state)))
		}
	}
	return out
}

func stName(st int32) string {
	return [...]string{"blocked-in-op", "parked", "mutex-blocked", "quiesce-wait", "exited"}[st]
}

// Run executes root as the first simulated goroutine and drives the schedule
// until the system is idle. It must be called from the root goroutine of a
// synctest bubble. It returns when root has returned and nothing more can
// happen before the horizon, or when the run is aborted.
func (s *Sched) Run(root func()) {
	if !cur.CompareAndSwap(nil, s) {
		panic("simrt: scheduler already installed")
	}
	defer cur.Store(nil)
	s.start = time.Now()
	g := s.newG("root")
	rootDone := false
	go s.runG(g, func() { root(); rootDone = true })
	defer func() { s.RootDone = rootDone; s.RootSite = g.Site }()

	for {
		synctest.Wait()
		if s.aborted.Load() {
			break
		}
		s.mu.Lock()
		var enabled, quiesce []*G
		live := 0
		for _, g := range s.all {
			switch g.state {
			case stParked:
				enabled = append(enabled, g)
				live++
			case stQuiesce:
				quiesce = append(quiesce, g)
				live++
			case stExited:
			default:
				live++
			}
		}
		if live == 0 {
			s.mu.Unlock()
			break
		}
		if s.steps >= s.cfg.MaxSteps {
			s.StepLimit = true
			s.mu.Unlock()
			s.abort("step limit")
			break
		}
		var pick *G
		if len(enabled) > 0 {
			pick = s.choose(enabled)
		} else if len(quiesce) > 0 {
			pick = quiesce[0]
			if len(quiesce) > 1 {
				pick = quiesce[s.rng.IntN(len(quiesce))]
			}
		}
		if pick != nil {
			s.steps++
			pick.Steps++
			pick.state = stRunning
			s.last = pick
			s.logf("%d t=%v g%d %s", s.steps, time.Since(s.start), pick.ID, pick.Site)
			s.mu.Unlock()
			pick.wake <- struct{}{}
			continue
		}
		s.mu.Unlock()
		// Nothing enabled: let virtual time advance to the next timer.
		select {
		case <-s.arrival:
		default:
		}
		before := time.Now()
		t := time.NewTimer(s.cfg.Horizon)
		select {
		case <-s.arrival:
			t.Stop()
			s.TimeAdvances++
			if time.Since(before) == 0 {
				// woken without time passing: a goroutine exited or parked late
			}
		case <-t.C:
			// A goroutine's own timer may have fired at the very same
			// instant as the horizon timer: look again before giving up.
			synctest.Wait()
			s.mu.Lock()
			again := false
			for _, g := range s.all {
				if g.state == stParked || g.state == stQuiesce {
					again = true
				}
			}
			s.mu.Unlock()
			if again {
				s.TimeAdvances++
				continue
			}
			// Idle until the horizon: nothing will ever happen again.
			if !rootDone || live > 0 {
				s.Deadlocked = true
			}
			s.mu.Lock()
			s.logf("idle-to-horizon live=%d", live)
			s.mu.Unlock()
			goto done
		}
	}
done:
	s.LiveAtEnd = s.Live()
	// Tear down: release parked goroutines so they can Goexit.
	s.abort("run finished")
	for {
		synctest.Wait()
		s.mu.Lock()
		var rel []*G
		for _, g := range s.all {
			if g.state == stParked || g.state == stBlocked || g.state == stQuiesce {
				rel = append(rel, g)
				g.state = stRunning
			}
		}
		s.mu.Unlock()
		if len(rel) == 0 {
			break
		}
		for _, g := range rel {
			g.wake <- struct{}{}
		}
	}
}

// choose picks among enabled goroutines (sorted by id, as s.all is).
func (s *Sched) choose(enabled []*G) *G {
	// apply holds (delay injection): held goroutines are skipped while
	// anything else is enabled.
	if s.cfg.FocusMod > 0 {
		for _, g := range enabled {
			if g.fresh && s.focusLeft > 0 && siteHash(g.Site, s.cfg.Seed)%uint64(s.cfg.FocusMod) == 0 {
				g.held = 4000
				s.focusLeft--
				s.FocusHolds++
				g.fresh = false
			}
		}
	}
	if s.cfg.DelayPermille > 0 || s.cfg.FocusMod > 0 {
		var free []*G
		for _, g := range enabled {
			// hold decisions are drawn here, by the director, in id order:
			// goroutines may park concurrently and must not draw themselves.
			if g.fresh {
				g.fresh = false
				if g.held == 0 && s.cfg.DelayPermille > 0 && s.rng.IntN(1000) < s.cfg.DelayPermille {
					// mostly short stalls, sometimes long enough for a whole
					// procedure (a shutdown, a kill) to complete meanwhile
					switch s.rng.IntN(4) {
					case 0:
						g.held = 1 + s.rng.IntN(1500)
					case 1:
						g.held = 1 + s.rng.IntN(200)
					default:
						g.held = 1 + s.rng.IntN(40)
					}
					s.Holds++
				}
			}
			if g.held > 0 {
				g.held--
			} else {
				free = append(free, g)
			}
		}
		if len(free) > 0 {
			enabled = free
		}
	}
	n := len(enabled)
	if n > 1 {
		s.MultiEnabled++
	}
	if n > s.MaxEnabled {
		s.MaxEnabled = n
	}
	if n == 1 {
		return enabled[0]
	}
	switch s.cfg.Strategy {
	case StratFIFO:
		return enabled[0]
	case StratSticky:
		if s.last != nil && s.rng.IntN(8) != 0 {
			for _, g := range enabled {
				if g == s.last {
					return g
				}
			}
		}
		return enabled[s.rng.IntN(n)]
	case StratPCT:
		if s.changeAt[s.steps] && s.last != nil {
			s.last.prio = -s.steps // lowest so far
		}
		best := enabled[0]
		for _, g := range enabled[1:] {
			if g.prio > best.prio {
				best = g
			}
		}
		return best
	default:
		return enabled[s.rng.IntN(n)]
	}
}

// ---- mutex / once emulation -------------------------------------------

// Lock acquires m without ever blocking non-durably.
func Lock(m *sync.Mutex, site string) {
	s := cur.Load()
	var g *G
	if s != nil {
		g = s.self()
	}
	if g == nil {
		m.Lock()
		return
	}
	for !m.TryLock() {
		if s.aborted.Load() {
			runtime.Goexit()
		}
		s.park(g, stBlocked, m, site)
	}
}

// Unlock releases m and enables goroutines waiting for it.
func Unlock(m *sync.Mutex, site ...string) {
	m.Unlock()
	s := cur.Load()
	if s == nil {
		return
	}
	s.mu.Lock()
	for _, g := range s.all {
		if g.state == stBlocked && g.blockOn == any(m) {
			g.state = stParked
			g.blockOn = nil
		}
	}
	s.mu.Unlock()
	// Releasing a lock is a visible operation: yield after it, so that
	// whatever follows (typically a channel operation) is not glued to the
	// critical section into one atomic step.
	if !s.aborted.Load() {
		if g := s.self(); g != nil {
			st := "unlock"
			if len(site) > 0 {
				st = site[0]
			}
			s.park(g, stParked, nil, st)
		}
	}
}

// OnceDo is sync.Once.Do for simulated goroutines.
func OnceDo(o *sync.Once, site string, f func()) {
	s := cur.Load()
	var g *G
	if s != nil {
		g = s.self()
	}
	if g == nil {
		o.Do(f)
		return
	}
	s.onceMu.Lock()
	st := s.onces[o]
	if st == nil {
		st = &onceState{}
		s.onces[o] = st
	}
	for st.running {
		s.onceMu.Unlock()
		s.park(g, stBlocked, o, site)
		s.onceMu.Lock()
	}
	if st.done {
		s.onceMu.Unlock()
		return
	}
	st.running = true
	s.onceMu.Unlock()
	defer func() {
		s.onceMu.Lock()
		st.running = false
		st.done = true
		s.onceMu.Unlock()
		s.mu.Lock()
		for _, g := range s.all {
			if g.state == stBlocked && g.blockOn == any(o) {
				g.state = stParked
				g.blockOn = nil
			}
		}
		s.mu.Unlock()
	}()
	f()
}

// ---- select ------------------------------------------------------------

// SelOrder returns the order in which a rewritten select polls its cases.
func SelOrder(site string, n int) []int {
	p := make([]int, n)
	for i := range p {
		p[i] = i
	}
	s := cur.Load()
	if s == nil || s.self() == nil {
		rand.Shuffle(n, func(i, j int) { p[i], p[j] = p[j], p[i] })
		return p
	}
	s.rng.Shuffle(n, func(i, j int) { p[i], p[j] = p[j], p[i] })
	return p
}

// Zero returns the zero value of a channel's element type; used by
// rewritten selects to declare receive temporaries without naming the type.
func Zero[T any](c <-chan T) (v T, ok bool) { return }

// Drop is consulted by rewritten try-sends; true means "behave as if the
// queue were full".
func Drop(site string, ch any, v any) bool {
	s := cur.Load()
	if s == nil || s.cfg.DropHook == nil || s.aborted.Load() {
		return false
	}
	if s.self() == nil {
		return false
	}
	if s.cfg.DropHook(site, ch, v) {
		s.mu.Lock()
		s.Drops++
		s.logf("  drop-injected %s", site)
		s.mu.Unlock()
		return true
	}
	return false
}

// ---- map iteration ------------------------------------------------------

// Keys returns m's keys in a canonical order (then seed-permuted when
// ShuffleMaps is on), replacing Go's randomised iteration order.
func Keys[M ~map[K]V, K comparable, V any](m M) []K {
	n := len(m)
	if n == 0 {
		return nil
	}
	keys := make([]K, 0, n)
	for k := range m {
		keys = append(keys, k)
	}
	if n == 1 {
		return keys
	}
	s := cur.Load()
	if s == nil || s.self() == nil {
		return keys
	}
	sk := make([]string, n)
	// pointer-like keys get a first-seen rank; registering in the random
	// iteration order above would be nondeterministic, so rank unseen keys
	// only after sorting the already-known ones: unseen pointers are ranked
	// by their position among unseen, which is only deterministic if there
	// is at most one unseen key per call -- therefore pointer keys must be
	// registered when created (see RegisterPtr) or they fall back to
	// formatting their pointee.
	for i, k := range keys {
		sk[i] = s.keyString(any(k))
	}
	idx := make([]int, n)
	for i := range idx {
		idx[i] = i
	}
	sort.SliceStable(idx, func(a, b int) bool { return sk[idx[a]] < sk[idx[b]] })
	out := make([]K, n)
	for i, j := range idx {
		out[i] = keys[j]
	}
	s.mu.Lock()
	s.MapRanges++
	s.mu.Unlock()
	if s.cfg.ShuffleMaps {
		s.rng.Shuffle(n, func(i, j int) { out[i], out[j] = out[j], out[i] })
	}
	return out
}

// KeyStringer lets the harness teach simrt how to order exotic keys.
var KeyStringer func(k any) (string, bool)

func (s *Sched) keyString(k any) string {
	if KeyStringer != nil {
		if str, ok := KeyStringer(k); ok {
			return str
		}
	}
	v := reflect.ValueOf(k)
	switch v.Kind() {
	case reflect.String:
		return v.String()
	case reflect.Int, reflect.Int8, reflect.Int16, reflect.Int32, reflect.Int64:
		return fmt.Sprintf("%021d", v.Int()+(1<<62))
	case reflect.Uint, reflect.Uint8, reflect.Uint16, reflect.Uint32, reflect.Uint64:
		return fmt.Sprintf("%021d", v.Uint())
	case reflect.Bool:
		return fmt.Sprint(v.Bool())
	case reflect.Struct:
		var b strings.Builder
		for i := 0; i < v.NumField(); i++ {
			f := v.Field(i)
			switch f.Kind() {
			case reflect.String:
				b.WriteString(f.String())
			case reflect.Int, reflect.Int8, reflect.Int16, reflect.Int32, reflect.Int64:
				fmt.Fprintf(&b, "%021d", f.Int()+(1<<62))
			case reflect.Uint, reflect.Uint8, reflect.Uint16, reflect.Uint32, reflect.Uint64:
				fmt.Fprintf(&b, "%021d", f.Uint())
			default:
				fmt.Fprintf(&b, "?%v", f.Kind())
				s.noteUnordered()
			}
			b.WriteByte('|')
		}
		return b.String()
	case reflect.Pointer:
		if v.IsNil() {
			return "nil"
		}
		e := v.Elem()
		if e.Kind() == reflect.Struct {
			for _, name := range []string{"ID", "id", "Id"} {
				f := e.FieldByName(name)
				if !f.IsValid() {
					continue
				}
				switch f.Kind() {
				case reflect.Uint, reflect.Uint8, reflect.Uint16, reflect.Uint32, reflect.Uint64:
					return fmt.Sprintf("%021d", f.Uint())
				case reflect.Int, reflect.Int8, reflect.Int16, reflect.Int32, reflect.Int64:
					return fmt.Sprintf("%021d", f.Int()+(1<<62))
				case reflect.String:
					return f.String()
				}
			}
		}
	}
	s.noteUnordered()
	return "?"
}

func (s *Sched) noteUnordered() {
	s.mu.Lock()
	s.Counters["unordered_map_key"]++
	s.mu.Unlock()
}

func siteHash(site string, seed uint64) uint64 {
	h := seed ^ 0xcbf29ce484222325
	for i := 0; i < len(site); i++ {
		h ^= uint64(site[i])
		h *= 1099511628211
	}
	h ^= h >> 29
	h *= 0xbf58476d1ce4e5b9
	h ^= h >> 32
	return h
}
