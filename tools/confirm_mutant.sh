#!/bin/bash
# confirm_mutant.sh <PROP> <mN>: confirm a sub-agent's seeded change in a scratch worktree of /repo's
# current main: applies, compiles, passes the existing suite, demo fails with it and passes without.
# Stores it under /verif/seeded/<PROP>-<mN>/ (patch regenerated against current main).
set -u
P=$1; M=$2
SRC=/tmp/mut/$P.out/$M
WT=/tmp/mutconf/$P-$M
OUT=/verif/seeded/$P-$M
export GOFLAGS=-mod=mod GOPROXY=off
mkdir -p /tmp/mutconf
git -C /repo worktree remove --force $WT >/dev/null 2>&1
git -C /repo worktree add --detach $WT main >/dev/null 2>&1 || { echo "worktree failed"; exit 2; }
cd $WT
res() { echo "$P-$M: $1"; }
if ! git apply -3 $SRC/patch.diff >/tmp/mutconf/$P-$M.apply.log 2>&1; then
  if ! git apply --reject $SRC/patch.diff >>/tmp/mutconf/$P-$M.apply.log 2>&1; then
    res "PATCH DOES NOT APPLY to current main (see /tmp/mutconf/$P-$M.apply.log)"; exit 1
  fi
fi
git reset -q 2>/dev/null
if ! go build ./... >/tmp/mutconf/$P-$M.build.log 2>&1; then res "DOES NOT COMPILE"; cat /tmp/mutconf/$P-$M.build.log | head; exit 1; fi
suite() { unshare -n sh -c 'ip link set lo up; go test -vet=off -count=1 -timeout 25m ./... 2>&1' | grep -v "no test files" | grep "^FAIL\|^--- FAIL\|^panic" ; }
F=$(suite)
if [ -n "$F" ]; then
  # the two load-flaky client tests: retry once
  F2=$(suite)
  if [ -n "$F2" ]; then F3=$(suite); if [ -n "$F3" ]; then res "SUITE FAILS WITH PATCH: $F3"; exit 1; fi; fi
fi
TESTNAME=$(grep -o "func Test[A-Za-z0-9_]*" $SRC/demo_test.go | head -1 | sed 's/func //')
PAT="Test${P}M${M#m}"
DIR=$(head -3 $SRC/demo_test.go | grep -o "Copy into: *[a-z/]*" | head -1 | sed 's/Copy into: *//; s#/$##')
[ -z "$DIR" ] && DIR=router
[ -d "$DIR" ] || DIR=router
echo "$DIR" > /tmp/mutconf/$P-$M.dir
cp $SRC/demo_test.go $DIR/zz_seeded_demo_test.go
unshare -n sh -c "ip link set lo up; go test -vet=off -count=1 -timeout 10m -run '$PAT' ./$DIR/ 2>&1" >/tmp/mutconf/$P-$M.with.log
if grep -q "^ok" /tmp/mutconf/$P-$M.with.log; then WITH=pass; else WITH=fail; fi
rm -f $DIR/zz_seeded_demo_test.go
git diff > /tmp/mutconf/$P-$M.patch
git checkout -q -- .
cp $SRC/demo_test.go $DIR/zz_seeded_demo_test.go
unshare -n sh -c "ip link set lo up; go test -vet=off -count=1 -timeout 10m -run '$PAT' ./$DIR/ 2>&1" >/tmp/mutconf/$P-$M.without.log
if grep -q "^ok" /tmp/mutconf/$P-$M.without.log; then WITHOUT=pass; else WITHOUT=fail; fi
res "suite=ok demo_with_patch=$WITH demo_without_patch=$WITHOUT"
if [ $WITH = fail ] && [ $WITHOUT = pass ]; then
  mkdir -p $OUT
  cp /tmp/mutconf/$P-$M.patch $OUT/patch.diff
  cp $SRC/demo_test.go $OUT/demo_test.go
  cp $SRC/notes.md $OUT/notes.md 2>/dev/null
  cp /tmp/mutconf/$P-$M.dir $OUT/demo_dir.txt
  echo "CONFIRMED" > $OUT/.confirmed
fi
cd /
git -C /repo worktree remove --force $WT >/dev/null 2>&1
