#!/bin/bash
# confirm_mutant.sh <PROP> <mN> [srcbase=/tmp/mut] [stored-as=mN]: confirm a sub-agent's seeded change in a scratch worktree of /repo's
# current main: applies, compiles, passes the existing suite, demo fails with it and passes without.
# Stores it under /verif/seeded/<PROP>-<mN>/ (patch regenerated against current main).
set -u
P=$1; M=$2
SRC=${3:-/tmp/mut}/$P.out/$M
N=${4:-$M}
WT=/tmp/mutconf/$P-$N
OUT=/verif/seeded/$P-$N
export GOFLAGS=-mod=mod GOPROXY=off
mkdir -p /tmp/mutconf
git -C /repo worktree remove --force $WT >/dev/null 2>&1
git -C /repo worktree add --detach $WT main >/dev/null 2>&1 || { echo "worktree failed"; exit 2; }
cd $WT
res() { echo "$P-$N (from $SRC): $1"; }
if ! git apply -3 $SRC/patch.diff >/tmp/mutconf/$P-$N.apply.log 2>&1; then
  if ! git apply --reject $SRC/patch.diff >>/tmp/mutconf/$P-$N.apply.log 2>&1; then
    res "PATCH DOES NOT APPLY to current main (see /tmp/mutconf/$P-$N.apply.log)"; exit 1
  fi
fi
git reset -q 2>/dev/null
if ! go build ./... >/tmp/mutconf/$P-$N.build.log 2>&1; then res "DOES NOT COMPILE"; cat /tmp/mutconf/$P-$N.build.log | head; exit 1; fi
suite() { unshare -n sh -c 'ip link set lo up; go test -vet=off -count=1 -timeout 25m ./... 2>&1' | grep -v "no test files" | grep "^FAIL\|^--- FAIL\|^panic" ; }
onlyflaky() { [ -z "$(echo "$1" | grep -- '^--- FAIL' | grep -v 'TestClientRace\|TestProgressDisconnect')" ] && [ -z "$(echo "$1" | grep '^FAIL.*v3/' | grep -v 'v3/client')" ] && [ -z "$(echo "$1" | grep '^panic')" ]; }
clientonly() { unshare -n sh -c 'ip link set lo up; go test -vet=off -count=1 -timeout 10m ./client/ 2>&1' | grep "^FAIL\|^--- FAIL\|^panic" ; }
F=$(suite)
if [ -n "$F" ]; then
  # the two load-flaky client tests (10 ms time-outs on real sockets; they fail on the pristine tree too under load):
  # when nothing else failed, the client package alone must pass in one of up to 8 further attempts
  if onlyflaky "$F"; then
    ok=0; for i in 1 2 3 4 5 6 7 8; do G=$(clientonly); if [ -z "$G" ]; then ok=1; break; fi; if ! onlyflaky "$G"; then break; fi; done
    if [ $ok = 0 ]; then res "SUITE FAILS WITH PATCH (client package never green): $G"; exit 1; fi
  else
    F2=$(suite)
    if [ -n "$F2" ] && ! onlyflaky "$F2"; then res "SUITE FAILS WITH PATCH: $F2"; exit 1; fi
  fi
fi
TESTNAME=$(grep -o "func Test[A-Za-z0-9_]*" $SRC/demo_test.go | head -1 | sed 's/func //')
PAT="^($(grep -o "^func Test[A-Za-z0-9_]*" $SRC/demo_test.go | sed 's/func //' | paste -sd'|'))\$"
DIR=$(grep -m1 "^package " $SRC/demo_test.go | awk '{print $2}' | sed 's/_test$//')
case "$DIR" in serialize) DIR=transport/serialize;; auth) DIR=router/auth;; crsign) DIR=wamp/crsign;; esac
[ -d "$DIR" ] || DIR=router
echo "$DIR" > /tmp/mutconf/$P-$N.dir
cp $SRC/demo_test.go $DIR/zz_seeded_demo_test.go
unshare -n sh -c "ip link set lo up; go test -vet=off -count=1 -timeout 10m -run '$PAT' ./$DIR/ 2>&1" >/tmp/mutconf/$P-$N.with.log
if grep -q "^ok" /tmp/mutconf/$P-$N.with.log; then WITH=pass; else WITH=fail; fi
rm -f $DIR/zz_seeded_demo_test.go
git diff > /tmp/mutconf/$P-$N.patch
git checkout -q -- .
cp $SRC/demo_test.go $DIR/zz_seeded_demo_test.go
unshare -n sh -c "ip link set lo up; go test -vet=off -count=1 -timeout 10m -run '$PAT' ./$DIR/ 2>&1" >/tmp/mutconf/$P-$N.without.log
if grep -q "^ok" /tmp/mutconf/$P-$N.without.log; then WITHOUT=pass; else WITHOUT=fail; fi
res "suite=ok demo_with_patch=$WITH demo_without_patch=$WITHOUT"
if [ $WITH = fail ] && [ $WITHOUT = pass ]; then
  mkdir -p $OUT
  cp /tmp/mutconf/$P-$N.patch $OUT/patch.diff
  cp $SRC/demo_test.go $OUT/demo_test.go
  cp $SRC/notes.md $OUT/notes.md 2>/dev/null
  cp /tmp/mutconf/$P-$N.dir $OUT/demo_dir.txt
  echo "CONFIRMED" > $OUT/.confirmed
fi
cd /
git -C /repo worktree remove --force $WT >/dev/null 2>&1
