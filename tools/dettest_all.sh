#!/bin/bash
# dettest_all.sh [runs=400] [PROP...]: determinism self-test. For every property the same seeds are run in 6 fresh
# processes at GOMAXPROCS 1,4,16,2,16,8; the per-run event-log hashes must be identical. Prints one line per
# property; exit 1 if any property diverges. (Builds from /repo's current tree like the checks do.)
N=${1:-400}; shift
cd "$(dirname "$0")/.."
V=$(pwd)
BIN=$(python3 - <<PY
import importlib.machinery, importlib.util, sys
l = importlib.machinery.SourceFileLoader("check", "$V/check"); spec = importlib.util.spec_from_loader("check", l); m = importlib.util.module_from_spec(spec); l.exec_module(m)
print(m.build()[0])
PY
) || exit 2
D=$(mktemp -d /var/tmp/verif-det-XXXX); cp $BIN $D/vsim.test
PROPS="$@"; [ -z "$PROPS" ] && PROPS=$(python3 -c "import json;print(' '.join(c['property_id'] for c in json.load(open('$V/MANIFEST.json'))['checks']))")
rc=0
for P in $PROPS; do
  n=$($V/dettest.sh $D/vsim.test $P $N 2>&1 | awk '{print $2}' | sort -u | wc -l)
  if [ "$n" = 1 ]; then echo "$P deterministic ($N seeds x 6 processes)"; else echo "$P DIVERGES ($n distinct hash lists)"; rc=1; fi
done
rm -rf $D
exit $rc
