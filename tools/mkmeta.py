#!/usr/bin/env python3
# mkmeta.py: (re)write seeded/<id>/meta.json from notes.md, demo_dir.txt and detect.txt
import json, os, re, sys, glob
os.chdir('/verif/seeded')
rows=[]
for d in sorted(glob.glob('C*-m*')):
    notes=open(d+'/notes.md').read() if os.path.exists(d+'/notes.md') else ''
    title=notes.splitlines()[0].lstrip('# ').strip() if notes else d
    def sect(name):
        m=re.search(r'^##+\s*'+name+r'.*?\n(.*?)(?=^##+\s|\Z)', notes, re.S|re.M|re.I)
        return re.sub(r'\s+',' ',m.group(1)).strip() if m else ''
    needs=sect('What is needed') or sect('Needs') or sect('What it needs') or sect('Trigger')
    demo_dir=open(d+'/demo_dir.txt').read().strip() if os.path.exists(d+'/demo_dir.txt') else ''
    det={}
    if os.path.exists(d+'/detect.txt'):
        for m in re.finditer(r'^\[\S+\] (\S+) exit=(\d+)', open(d+'/detect.txt').read(), re.M):
            det[m.group(1)]={'0':'missed','1':'caught'}.get(m.group(2),'tooling exit '+m.group(2))
    meta={
      'id': d, 'property': d.split('-')[0], 'title': title,
      'files': sorted(set(re.findall(r'^\+\+\+ b/(\S+)', open(d+'/patch.diff').read(), re.M))),
      'needs_to_manifest': needs[:1500],
      'demonstration': {'file':'demo_test.go','copy_into':demo_dir,
          'run':'go test -vet=off -count=1 -run <Test in demo_test.go> ./'+demo_dir},
      'confirmed_by_me': 'tools/confirm_mutant.sh: scratch worktree of /repo main; git apply; go build ./...; full suite (runtests-style, up to 3 attempts because TestProgressDisconnect/TestClientRace are load-flaky on the pristine tree too) passes; demo fails with the patch and passes without it',
      'origin': 'independent sub-agent given only the property text and a scratch worktree' + (' (patch hand-ported to current main by me)' if d in ('C05-m1','C15-m1') else ''),
      'checks_run': det,
    }
    json.dump(meta, open(d+'/meta.json','w'), indent=1)
    rows.append((d,title,det))
with open('SUMMARY.md','w') as f:
    f.write('# Seeded changes and detection (written by tools/mkmeta.py from detect.txt)\n\n| id | change | checks run → result |\n|---|---|---|\n')
    for d,t,det in rows:
        f.write('| %s | %s | %s |\n'%(d,t.replace('|','/'),', '.join('%s: %s'%kv for kv in det.items()) or 'not run yet'))
    f.write(open('NOTKEPT.md').read() if os.path.exists('NOTKEPT.md') else '')
print(len(rows),'meta files')
