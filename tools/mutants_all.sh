#!/bin/bash
# mutants_all.sh <budget>: run every seeded change against the check(s) of its property; write seeded/<id>/detect.txt
B=${1:-15}
cd /verif
for d in seeded/*/; do
  id=$(basename $d); prop=${id%%-*}
  props=$prop
  case $id in
    C05-m2) props="C05 C02";; C13-m2) props="C13";; C18-m2) props="C18 C05";; C20-m1) props="C20";;
  esac
  /verif/tools/run_mutant.sh $id $B $props > $d/detect.txt 2>&1
  echo "$id: $(grep -c 'exit=1' $d/detect.txt) of $(echo $props | wc -w) checks fired"
done
