#!/bin/bash
# mutants_all.sh [budget] [id-glob]: run every seeded change (or those matching the glob) against the check(s)
# of its property; write seeded/<id>/detect.txt. Uses /repo itself: nothing else may touch /repo meanwhile.
B=${1:-15}; G=${2:-*}
cd "$(dirname "$0")/.."
V=$(pwd)
for d in $V/seeded/$G/; do
  [ -f $d/patch.diff ] || continue
  id=$(basename $d); prop=${id%%-*}
  props=$prop
  case $id in
    C18-m6) props="C18 C07 C05";; C07-m5) props="C07 C04";; C07-m6) props="C07 C02";; C08-m5) props="C08 C15 C07";; C08-m6) props="C08 C20 C04";;
    C13-m5) props="C13 C02";; C15-m6) props="C15 C04";; C02-m5) props="C02 C13";; C02-m6) props="C02 C05 C18";; C12-m5) props="C12 C20";;
    C01-m6) props="C01 C11";; C11-m5) props="C11 C04 C02";; C04-m5) props="C04 C07";; C04-m6) props="C04 C06";; C18-m5) props="C18 C01";; C05-m6) props="C05 C18";;
    C02-m7) props="C02 C13";; C02-m8) props="C02 C05 C03";; C04-m7) props="C04 C03";; C04-m8) props="C04 C06";; C07-m7) props="C07 C05";; C07-m8) props="C07 C15";;
    C08-m7) props="C08 C03";; C08-m8) props="C08 C16";; C12-m7) props="C12 C02 C07";; C12-m8) props="C12 C08";; C18-m7) props="C18 C01";; C18-m8) props="C18 C07";;
    C13-m4) props="C13 C02";; C06-m5) props="C06";; C11-m4) props="C11 C04";;
    C05-m2) props="C05 C02";; C18-m2) props="C18 C05";; C02-m4) props="C02 C05";; C05-m4) props="C05 C02";; C20-m3) props="C20 C04";; C07-m4) props="C07 C02";; C08-m4) props="C08 C07";;
  esac
  $V/tools/run_mutant.sh $id $B $props > $d/detect.txt 2>&1
  if grep -q "patch does not apply" $d/detect.txt; then echo "$id: PATCH NO LONGER APPLIES to the current tree"; else
  echo "$id: $(grep -c 'exit=1' $d/detect.txt) of $(echo $props | wc -w) checks fired"; fi
done
