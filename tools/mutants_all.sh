#!/bin/bash
# mutants_all.sh [budget] [id-glob]: run every seeded change (or those matching the glob) against the check(s)
# of its property; write seeded/<id>/detect.txt. Uses /repo itself: nothing else may touch /repo meanwhile.
B=${1:-15}; G=${2:-*}
cd "$(dirname "$0")/.."
V=$(pwd)
for d in $V/seeded/$G/; do
  [ -f $d/patch.diff ] || continue
  id=$(basename $d); prop=${id%%-*}
  props=$prop
  case $id in
    C05-m2) props="C05 C02";; C18-m2) props="C18 C05";; C02-m4) props="C02 C05";; C05-m4) props="C05 C02";; C20-m3) props="C20 C04";; C07-m4) props="C07 C02";; C08-m4) props="C08 C07";;
  esac
  $V/tools/run_mutant.sh $id $B $props > $d/detect.txt 2>&1
  if grep -q "patch does not apply" $d/detect.txt; then echo "$id: PATCH NO LONGER APPLIES to the current tree"; else
  echo "$id: $(grep -c 'exit=1' $d/detect.txt) of $(echo $props | wc -w) checks fired"; fi
done
