#!/bin/bash
# mutants_w5.sh [budget]: wave-5 seeded changes against the checks of their property and of related ones
B=${1:-25}
cd "$(dirname "$0")/.."
V=$(pwd)
for pm in "C02-m7:C02 C13" "C02-m8:C02 C05 C03" "C04-m7:C04 C03" "C04-m8:C04 C06" "C07-m7:C07 C05" "C07-m8:C07 C15" "C08-m7:C08 C03" "C08-m8:C08 C16" \
          "C12-m7:C12 C02 C07" "C12-m8:C12 C08" "C13-m7:C13" "C13-m8:C13" "C16-m7:C16" "C16-m8:C16" "C18-m7:C18 C01" "C18-m8:C18 C07"; do
  id=${pm%%:*}; props=${pm#*:}
  [ -f $V/seeded/$id/patch.diff ] || { echo "$id: not confirmed / not kept"; continue; }
  $V/tools/run_mutant.sh $id $B $props > $V/seeded/$id/detect.txt 2>&1
  if grep -q "patch does not apply" $V/seeded/$id/detect.txt; then echo "$id: PATCH NO LONGER APPLIES"; else
  echo "$id: $(grep -c 'exit=1' $V/seeded/$id/detect.txt) of $(echo $props | wc -w) checks fired"; fi
done
