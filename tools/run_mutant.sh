#!/bin/bash
# run_mutant.sh <seeded-dir-name> <budget_s> <PROP>...: apply a seeded change to /repo, run the given checks, undo it.
set -u
V=$(cd "$(dirname "$0")/.." && pwd)
D=$V/seeded/$1; B=$2; shift 2
R=${VERIF_REPO:-/repo}
cd $R || exit 2
if [ -n "$(git status --porcelain)" ]; then echo "/repo not clean"; exit 2; fi
git apply $D/patch.diff || { echo "patch does not apply"; exit 2; }
trap 'git -C $R checkout -- . ; git -C $R clean -fdq' EXIT
cd $V
for P in "$@"; do
  out=$(VERIF_SEED=${VERIF_SEED:-1} ./check $P --budget $B 2>&1)
  rc=$?
  echo "[$1] $P exit=$rc :: $(echo "$out" | grep -m2 'VIOLATION\|TOOLING' | tr '\n' ' ')"
  echo "$out" | grep -A1 VIOLATION | grep -v VIOLATION | head -2
done
