#!/bin/bash
# sweep.sh <tier> <seed>...: run every registered check at the given base seeds; print one line per run
tier=$1; shift
cd "$(dirname "$0")/.."
for seed in "$@"; do
  for p in $(python3 -c "import json;print(' '.join(c['property_id'] for c in json.load(open('MANIFEST.json'))['checks']))"); do
    out=$(VERIF_SEED=$seed ./check $p --tier $tier 2>&1); rc=$?
    echo "seed=$seed $p exit=$rc $(echo "$out" | tail -1)"
    echo "$out" | grep -A1 "VIOLATION\|TOOLING\|KNOWN" | head -6
  done
done
