package vsim

import (
	"math"

	"github.com/gammazero/nexus/v3/wamp"
)

// OptKeys is every option/detail key the router or client look at. The list
// is regenerated from /repo/wamp/options.go by build.sh (zz_optkeys.go adds
// to it) so that new keys are picked up automatically.
var OptKeys = []string{
	"acknowledge", "disclose_caller", "disclose_me", "exclude_me", "invoke", "match", "message", "error", "mode",
	"procedure", "progress", "reason", "receive_progress", "timeout", "ppt_scheme", "ppt_serializer", "ppt_cipher",
	"ppt_keyid", "sticky", "forward_timeout", "exclude", "eligible", "exclude_authid", "exclude_authrole",
	"eligible_authid", "eligible_authrole", "exclude_xattr", "eligible_xattr", "authid", "authrole", "authmethods", "roles",
	"caller", "publisher", "topic", "all", "x_custom",
}

// HostileValue returns a value of an arbitrary WAMP-representable type.
func HostileValue(g *Rand, depth int) any {
	switch g.Intn(18) {
	case 0:
		return nil
	case 1:
		return true
	case 2:
		return false
	case 3:
		return 0
	case 4:
		return int64(-1)
	case 5:
		return uint64(1) << 53
	case 6:
		return uint64(math.MaxUint64)
	case 7:
		return int64(math.MinInt64)
	case 8:
		return 3.5
	case 9:
		return math.NaN()
	case 10:
		return g.Pick("", "x", "kill", "skip", "killnowait", "exact", "prefix", "wildcard", "roundrobin", "first", "last", "random", "single", "wamp.error.x", "a b", "trusted")
	case 11:
		return []byte{0, 1, 2}
	case 12:
		if depth > 2 {
			return wamp.List{}
		}
		n := g.Intn(3)
		l := wamp.List{}
		for i := 0; i < n; i++ {
			l = append(l, HostileValue(g, depth+1))
		}
		return l
	case 13:
		if depth > 2 {
			return wamp.Dict{}
		}
		n := g.Intn(3)
		d := wamp.Dict{}
		for i := 0; i < n; i++ {
			d[g.Pick(OptKeys...)] = HostileValue(g, depth+1)
		}
		return d
	case 14:
		return map[string]any{"k": 1}
	case 15:
		return []any{"s", 1}
	case 16:
		return wamp.ID(g.Intn(5))
	default:
		return g.Intn(100)
	}
}

// HostileDict builds an options/details dict: a few known keys with values of
// arbitrary type, biased so that type-confused values sit next to well-typed
// enabling ones (e.g. ppt_scheme:"x" with ppt_cipher:42).
func HostileDict(g *Rand) wamp.Dict {
	if g.Intn(8) == 0 {
		return nil
	}
	d := wamp.Dict{}
	n := g.Intn(5)
	for i := 0; i < n; i++ {
		k := g.Pick(OptKeys...)
		d[k] = HostileValue(g, 0)
	}
	if g.Intn(3) == 0 {
		d["ppt_scheme"] = g.Pick("x_custom", "mqtt", "")
		if g.Bool() {
			d[g.Pick("ppt_serializer", "ppt_cipher", "ppt_keyid")] = HostileValue(g, 0)
		}
	}
	if g.Intn(4) == 0 {
		d[g.Pick("progress", "receive_progress", "acknowledge", "disclose_me", "exclude_me")] = g.Bool()
	}
	if g.Intn(6) == 0 {
		d["timeout"] = HostileValue(g, 0)
	}
	return d
}

var hostileURIs = []string{"", "a", "a.b", "a..c", "a.", ".", "..", "t.x", "p.echo", "p.slow", "wamp.session.count", "wamp.session.kill",
	"wamp.session.get", "wamp.subscription.get_events", "wamp.registration.list", "wamp.session.on_join", "wamp.", "A.B", "a b", "a#b", "p.", "t."}

func HostileURI(g *Rand) wamp.URI { return wamp.URI(g.Pick(hostileURIs...)) }

// HostileID returns an id biased towards ids that exist (small ids, the
// caller-supplied known ids) and boundary values.
func HostileID(g *Rand, known []wamp.ID) wamp.ID {
	switch g.Intn(6) {
	case 0:
		return 0
	case 1:
		return wamp.ID(1) << 53
	case 2:
		return wamp.ID(math.MaxUint64)
	case 3, 4:
		if len(known) > 0 {
			return known[g.Intn(len(known))]
		}
	}
	return wamp.ID(g.Intn(40))
}

func hostileList(g *Rand) wamp.List {
	if g.Intn(3) == 0 {
		return nil
	}
	n := g.Intn(3)
	l := wamp.List{}
	for i := 0; i < n; i++ {
		l = append(l, HostileValue(g, 1))
	}
	return l
}

func hostileKw(g *Rand) wamp.Dict {
	if g.Intn(2) == 0 {
		return nil
	}
	d := wamp.Dict{}
	for i := g.Intn(3); i > 0; i-- {
		d[g.Pick("reason", "message", "scope", "publish_options", "limit", "reverse", "topic", "from_time", "after_publication", "x")] = HostileValue(g, 1)
	}
	return d
}

// HostileMessage returns an arbitrary WAMP message.
func HostileMessage(g *Rand, known []wamp.ID) wamp.Message {
	switch g.Weighted(2, 1, 1, 1, 2, 2, 6, 6, 1, 5, 5, 1, 8, 5, 1, 6, 1, 5, 1, 1, 1, 6, 3, 1) {
	case 0:
		return &wamp.Hello{Realm: wamp.URI(g.Pick("r1", "r2", "", "nope")), Details: HostileDict(g)}
	case 1:
		return &wamp.Welcome{ID: HostileID(g, known), Details: HostileDict(g)}
	case 2:
		return &wamp.Abort{Details: HostileDict(g), Reason: HostileURI(g)}
	case 3:
		return &wamp.Challenge{AuthMethod: g.Pick("ticket", "wampcra", ""), Extra: HostileDict(g)}
	case 4:
		return &wamp.Authenticate{Signature: g.Pick("", "sig", "ticket1"), Extra: HostileDict(g)}
	case 5:
		return &wamp.Goodbye{Details: HostileDict(g), Reason: HostileURI(g)}
	case 6:
		return &wamp.Error{Type: wamp.MessageType(g.Pick("\x30", "\x44", "\x10", "\x20", "\x00", "\x46")[0]), Request: HostileID(g, known), Details: HostileDict(g), Error: HostileURI(g), Arguments: hostileList(g), ArgumentsKw: hostileKw(g)}
	case 7:
		return &wamp.Publish{Request: HostileID(g, known), Options: HostileDict(g), Topic: HostileURI(g), Arguments: hostileList(g), ArgumentsKw: hostileKw(g)}
	case 8:
		return &wamp.Published{Request: HostileID(g, known), Publication: HostileID(g, known)}
	case 9:
		return &wamp.Subscribe{Request: HostileID(g, known), Options: HostileDict(g), Topic: HostileURI(g)}
	case 10:
		return &wamp.Unsubscribe{Request: HostileID(g, known), Subscription: HostileID(g, known)}
	case 11:
		return &wamp.Event{Subscription: HostileID(g, known), Publication: HostileID(g, known), Details: HostileDict(g), Arguments: hostileList(g)}
	case 12:
		switch g.Intn(6) {
		case 0:
			// testament with arbitrary publish options, published by the realm itself when the session ends
			return &wamp.Call{Request: HostileID(g, known), Options: wamp.Dict{}, Procedure: "wamp.session.add_testament",
				Arguments:   wamp.List{g.Pick("t.x", "t.", "", "a b", "wamp.session.on_leave"), hostileList(g), hostileKw(g)},
				ArgumentsKw: wamp.Dict{"publish_options": HostileDict(g), "scope": g.Pick("destroyed", "detached", "", "x")}}
		case 1:
			return &wamp.Call{Request: HostileID(g, known), Options: HostileDict(g), Procedure: wamp.URI(g.Pick("wamp.session.kill", "wamp.session.kill_by_authid", "wamp.session.kill_by_authrole", "wamp.session.kill_all", "wamp.session.modify_details", "wamp.session.get", "wamp.subscription.get_events", "wamp.registration.get", "wamp.subscription.list_subscribers")),
				Arguments: wamp.List{HostileValue(g, 1), HostileValue(g, 1)}, ArgumentsKw: hostileKw(g)}
		case 2:
			return &wamp.Call{Request: wamp.ID(g.Range(1, 4)), Options: HostileDict(g), Procedure: wamp.URI(g.Pick("p.g1", "p.g2", "p.slow", "p.echo")), Arguments: hostileList(g)}
		}
		return &wamp.Call{Request: HostileID(g, known), Options: HostileDict(g), Procedure: HostileURI(g), Arguments: hostileList(g), ArgumentsKw: hostileKw(g)}
	case 13:
		return &wamp.Cancel{Request: HostileID(g, known), Options: HostileDict(g)}
	case 14:
		return &wamp.Result{Request: HostileID(g, known), Details: HostileDict(g), Arguments: hostileList(g)}
	case 15:
		if g.Intn(3) == 0 {
			// shared registrations under well-known names and arbitrary policies
			return &wamp.Register{Request: wamp.ID(g.Range(1, 30)), Options: wamp.Dict{"invoke": g.Pick("foo", "foo", "roundrobin", "first", "last", "random", "single", "")}, Procedure: wamp.URI(g.Pick("p.g1", "p.g2"))}
		}
		return &wamp.Register{Request: HostileID(g, known), Options: HostileDict(g), Procedure: HostileURI(g)}
	case 16:
		return &wamp.Registered{Request: HostileID(g, known), Registration: HostileID(g, known)}
	case 17:
		return &wamp.Unregister{Request: HostileID(g, known), Registration: HostileID(g, known)}
	case 18:
		return &wamp.Unregistered{Request: HostileID(g, known)}
	case 19:
		return &wamp.Invocation{Request: HostileID(g, known), Registration: HostileID(g, known), Details: HostileDict(g), Arguments: hostileList(g)}
	case 20:
		return &wamp.Interrupt{Request: HostileID(g, known), Options: HostileDict(g)}
	case 21:
		return &wamp.Yield{Request: HostileID(g, known), Options: HostileDict(g), Arguments: hostileList(g), ArgumentsKw: hostileKw(g)}
	case 22:
		return &wamp.Unsubscribed{Request: HostileID(g, known)}
	default:
		return &wamp.Subscribed{Request: HostileID(g, known), Subscription: HostileID(g, known)}
	}
}
