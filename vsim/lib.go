package vsim

import (
	"errors"
	"strings"
	"time"

	"github.com/gammazero/nexus/v3/simrt"
	"github.com/gammazero/nexus/v3/transport/serialize"
	"github.com/gammazero/nexus/v3/wamp"
)

// KS is the harness key store: user -> secret / role.
type KS struct {
	Users map[string]KSUser
	Name  string
}

type KSUser struct {
	Secret string
	Role   string
	Salt   string
}

func (k *KS) AuthKey(authid, authmethod string) ([]byte, error) {
	u, ok := k.Users[authid]
	if !ok {
		return nil, errors.New("no such user")
	}
	return []byte(u.Secret), nil
}
func (k *KS) PasswordInfo(authid string) (string, int, int) { return "", 0, 0 }
func (k *KS) AuthRole(authid string) (string, error) {
	u, ok := k.Users[authid]
	if !ok {
		return "", errors.New("no such user")
	}
	return u.Role, nil
}
func (k *KS) Provider() string { return k.Name }

// Callee behaviours (run in the session's drainer goroutine).
const (
	BehEcho     = iota // YIELD with the invocation's arguments
	BehError           // ERROR wamp.error.x
	BehIgnore          // never answer
	BehProgress        // two progressive YIELDs then a final one (if receive_progress), else echo
)

// CalleeBehaviour returns an OnRecv handler implementing a simple callee.
func CalleeBehaviour(beh func(inv *wamp.Invocation) int) func(s *Sess, m wamp.Message) {
	return func(s *Sess, m wamp.Message) {
		inv, ok := m.(*wamp.Invocation)
		if !ok {
			return
		}
		switch beh(inv) {
		case BehEcho:
			s.Send(&wamp.Yield{Request: inv.Request, Options: wamp.Dict{}, Arguments: inv.Arguments, ArgumentsKw: inv.ArgumentsKw})
		case BehError:
			s.Send(&wamp.Error{Type: wamp.INVOCATION, Request: inv.Request, Details: wamp.Dict{}, Error: "wamp.error.x", Arguments: inv.Arguments})
		case BehProgress:
			if rp, _ := inv.Details["receive_progress"].(bool); rp {
				for i := 0; i < 2; i++ {
					s.Send(&wamp.Yield{Request: inv.Request, Options: wamp.Dict{"progress": true}, Arguments: wamp.List{i}})
				}
			}
			s.Send(&wamp.Yield{Request: inv.Request, Options: wamp.Dict{}, Arguments: inv.Arguments})
		}
	}
}

// find returns the first message in rs satisfying pred.
func find(rs []Rcv, pred func(m wamp.Message) bool) wamp.Message {
	for _, r := range rs {
		if pred(r.Msg) {
			return r.Msg
		}
	}
	return nil
}

// HealthProbe attaches a fresh, well-behaved session to realm and requires a
// pub/sub round trip, an RPC round trip and a meta call to complete, each
// within maxLat of virtual time (0: at the current instant).
func HealthProbe(c *Ctx, w *World, realm wamp.URI, tag string, maxLat time.Duration) bool {
	tag = strings.ToLower(tag)
	c.DisarmDrops() // the probe's own replies must not be made to disappear
	p := w.NewSess("probe"+tag, realm, true, 64, nil)
	fail := func(what string) bool {
		c.Violf("%s: router no longer serves an uninvolved session: %s (within %v)", tag, what, maxLat)
		return false
	}
	t0 := c.S.Elapsed()
	p.StartAttach(nil)
	p.StartDrain()
	if !p.Send(&wamp.Hello{Realm: realm, Details: wamp.Dict{"roles": AllFeatures()}}) {
		return fail("HELLO not taken by the router")
	}
	if p.Await(maxLat, func(m wamp.Message) bool { _, ok := m.(*wamp.Welcome); return ok }) == nil {
		return fail("fresh session gets no WELCOME")
	}
	topic := wamp.URI("probe.topic." + tag)
	r1 := p.NextReq()
	if !p.Send(&wamp.Subscribe{Request: r1, Options: wamp.Dict{}, Topic: topic}) {
		return fail("SUBSCRIBE not taken by the router")
	}
	sub, _ := p.Await(maxLat, func(m wamp.Message) bool { s, ok := m.(*wamp.Subscribed); return ok && s.Request == r1 }).(*wamp.Subscribed)
	if sub == nil {
		return fail("no SUBSCRIBED")
	}
	r2 := p.NextReq()
	if !p.Send(&wamp.Publish{Request: r2, Options: wamp.Dict{"acknowledge": true, "exclude_me": false}, Topic: topic, Arguments: wamp.List{"hp"}}) {
		return fail("PUBLISH not taken by the router")
	}
	if p.Await(maxLat, func(m wamp.Message) bool { e, ok := m.(*wamp.Event); return ok && e.Subscription == sub.Subscription }) == nil {
		return fail("no EVENT for own publication")
	}
	if p.Await(maxLat, func(m wamp.Message) bool { s, ok := m.(*wamp.Published); return ok && s.Request == r2 }) == nil {
		return fail("no PUBLISHED")
	}
	proc := wamp.URI("probe.proc." + tag)
	r3 := p.NextReq()
	if !p.Send(&wamp.Register{Request: r3, Options: wamp.Dict{}, Procedure: proc}) {
		return fail("REGISTER not taken")
	}
	if p.Await(maxLat, func(m wamp.Message) bool { s, ok := m.(*wamp.Registered); return ok && s.Request == r3 }) == nil {
		return fail("no REGISTERED")
	}
	r4 := p.NextReq()
	if !p.Send(&wamp.Call{Request: r4, Options: wamp.Dict{}, Procedure: proc, Arguments: wamp.List{"hp"}}) {
		return fail("CALL not taken")
	}
	inv, _ := p.Await(maxLat, func(m wamp.Message) bool { _, ok := m.(*wamp.Invocation); return ok }).(*wamp.Invocation)
	if inv == nil {
		return fail("no INVOCATION")
	}
	if !p.Send(&wamp.Yield{Request: inv.Request, Options: wamp.Dict{}, Arguments: wamp.List{"hp2"}}) {
		return fail("YIELD not taken")
	}
	if p.Await(maxLat, func(m wamp.Message) bool { s, ok := m.(*wamp.Result); return ok && s.Request == r4 }) == nil {
		return fail("no RESULT")
	}
	r5 := p.NextReq()
	if !p.Send(&wamp.Call{Request: r5, Options: wamp.Dict{}, Procedure: "wamp.session.count"}) {
		return fail("meta CALL not taken")
	}
	if p.Await(maxLat, func(m wamp.Message) bool { s, ok := m.(*wamp.Result); return ok && s.Request == r5 }) == nil {
		return fail("no RESULT for wamp.session.count")
	}
	if d := c.S.Elapsed() - t0; d > 0 {
		c.Probe("health_probe_delayed")
	}
	p.Send(&wamp.Goodbye{Reason: wamp.CloseNormal, Details: wamp.Dict{}})
	simrt.WaitQuiescent("probe")
	c.Probe("health_probe_ok")
	return true
}

// RouterGoroutinesLeft lists live simulated goroutines that belong to the
// code under test (not to the harness).
func RouterGoroutinesLeft(c *Ctx) []string {
	var out []string
	for _, l := range c.S.Live() {
		if isHarnessG(l) {
			continue
		}
		out = append(out, l)
	}
	return out
}

func isHarnessG(l string) bool {
	for _, p := range []string{"(root)", "(drain:", "(actor:", "(attach:", "(op:", "(app:", "(hs:"} {
		if strings.Contains(l, p) {
			return true
		}
	}
	return false
}

// CloseAll ends every session's transport and closes the router; then
// requires that no goroutine of the router remains.
// NewAnySess creates a session over a drawn transport: mostly the in-process
// one, sometimes rawsocket over a SimConn or websocket over a FakeWS (real
// peers and serializers on both ends).
func NewAnySess(c *Ctx, w *World, g *Rand, name string, realm wamp.URI, qsize int, hello wamp.Dict) *Sess {
	sz := []serialize.Serialization{serialize.JSON, serialize.MSGPACK, serialize.CBOR}[g.Intn(3)]
	switch g.Weighted(4, 1, 1) {
	case 1:
		c.Probe("session_over_rawsocket")
		if s := w.NewRawSess(c, name, realm, sz, 0, 0, qsize, NetFaults{Window: []int{0, 200, 4000}[g.Intn(3)]}, hello); s != nil {
			return s
		}
	case 2:
		c.Probe("session_over_websocket")
		return w.NewWSSess(c, name, realm, sz, qsize, []int{2, 64}[g.Intn(2)], []time.Duration{0, 0, 9 * time.Second}[g.Intn(3)], hello)
	}
	return w.NewSess(name, realm, g.Bool(), qsize, hello)
}

func CloseAll(c *Ctx, w *World, checkLeft bool) {
	for _, s := range w.Sess {
		if !s.CliClosed {
			s.CloseTransport()
		}
	}
	simrt.WaitQuiescent("closeall")
	w.R.Close()
	simrt.WaitQuiescent("closed")
	if checkLeft {
		if left := RouterGoroutinesLeft(c); len(left) > 0 {
			c.Violf("goroutines of the router remain after Close: %s", strings.Join(left, "; "))
		}
	}
}
