package vsim

import (
	"encoding/json"
	"fmt"
	"os"
	"sort"
	"strconv"
	"sync/atomic"
	"testing"
	"time"
)

func envInt(name string, def int) int {
	if v := os.Getenv(name); v != "" {
		if n, err := strconv.Atoi(v); err == nil {
			return n
		}
	}
	return def
}

// Agg is what a worker reports.
type Agg struct {
	Prop        string         `json:"prop"`
	Worker      int            `json:"worker"`
	Runs        int            `json:"runs"`
	Steps       int64          `json:"steps"`
	VTimeMs     int64          `json:"vtime_ms"`
	NonTrivial  int            `json:"nontrivial"`
	Shapes      []string       `json:"shapes"` // distinct shapes of non-trivial runs
	Probes      map[string]int `json:"probes"`
	Faults      map[string]int `json:"faults"`
	Strategies  map[string]int `json:"strategies"`
	Samples     []string       `json:"samples"`
	Violations  []*Result      `json:"violations"`
	Tooling     []string       `json:"tooling"`
	WallS       float64        `json:"wall_s"`
	FirstSeeds  []uint64       `json:"first_seeds"`
	StepLimited int            `json:"step_limited"`
	Hashes      []string       `json:"hashes,omitempty"`
}

var curSpec atomic.Value

// TestSim is the single entry point of the simulation binary; behaviour is
// selected by environment variables (see /verif/check).
func TestSim(t *testing.T) {
	out := os.Getenv("VSIM_OUT")
	if out == "" {
		t.Skip("VSIM_OUT not set")
	}
	// wall-clock watchdog, outside any bubble
	go func() {
		var last any
		var since time.Time
		for {
			time.Sleep(2 * time.Second)
			v := curSpec.Load()
			if v == nil {
				continue
			}
			if v != last {
				last = v
				since = time.Now()
				continue
			}
			if time.Since(since) > time.Duration(envInt("VSIM_WATCHDOG_S", 120))*time.Second {
				b, _ := json.Marshal(v)
				fmt.Fprintf(os.Stderr, "WATCHDOG: run stuck: %s\n", b)
				os.WriteFile(out+".stuck", b, 0o644)
				os.Exit(3)
			}
		}
	}()
	if f := os.Getenv("VSIM_REPLAY"); f != "" {
		b, err := os.ReadFile(f)
		if err != nil {
			t.Fatal(err)
		}
		var rf struct {
			Spec Spec `json:"spec"`
		}
		if err := json.Unmarshal(b, &rf); err != nil {
			t.Fatal(err)
		}
		rf.Spec.KeepLog = true
		sp := rf.Spec
		curSpec.Store(&sp)
		res := RunOne(t, rf.Spec)
		writeJSON(out, res)
		return
	}
	if f := os.Getenv("VSIM_MINIMIZE"); f != "" {
		b, err := os.ReadFile(f)
		if err != nil {
			t.Fatal(err)
		}
		var spec Spec
		if err := json.Unmarshal(b, &spec); err != nil {
			t.Fatal(err)
		}
		res := Minimize(t, spec, os.Getenv("VSIM_SIG"), time.Duration(envInt("VSIM_BUDGET_S", 60))*time.Second)
		writeJSON(out, res)
		return
	}
	prop := os.Getenv("VSIM_PROP")
	base := uint64(envInt("VSIM_BASESEED", 1))
	worker := envInt("VSIM_WORKER", 0)
	nworkers := envInt("VSIM_NWORKERS", 1)
	budget := time.Duration(envInt("VSIM_BUDGET_S", 20)) * time.Second
	maxRuns := envInt("VSIM_MAXRUNS", 1<<30)
	tier := os.Getenv("VSIM_TIER")
	if tier == "" {
		tier = "quick"
	}
	agg := &Agg{Prop: prop, Worker: worker, Probes: map[string]int{}, Faults: map[string]int{}, Strategies: map[string]int{}}
	shapes := map[string]bool{}
	sigs := map[string]int{}
	var ran []uint64
	start := time.Now()
	for k := 0; k < maxRuns; k++ {
		if time.Since(start) > budget {
			break
		}
		// (the driver restarts the worker processes every few minutes - VSIM_IDXOFFSET continues the
		// numbering - so that nothing a long-lived process accumulates slows the later runs down)
		idx := uint64(envInt("VSIM_IDXOFFSET", 0)) + uint64(worker+k*nworkers)
		gs := Mix(Mix(base, hashStr(prop)), idx)
		spec := Spec{Prop: prop, GenSeed: gs, SchedSeed: Mix(gs, 7), Strategy: -1, Tier: tier}
		sp := spec
		curSpec.Store(&sp)
		if cb, err := json.Marshal(&sp); err == nil {
			os.WriteFile(out+".cur", cb, 0o644)
		}
		res := RunOne(t, spec)
		if len(res.Violations) > 0 {
			res.PrevSeeds = append([]uint64(nil), ran...)
		}
		ran = append(ran, gs)
		// (also on disk: if this process dies, the driver needs to know what it had run before)
		if f, err := os.OpenFile(out+".ran", os.O_APPEND|os.O_CREATE|os.O_WRONLY, 0o644); err == nil {
			fmt.Fprintf(f, "%d\n", gs)
			f.Close()
		}
		agg.Runs++
		if os.Getenv("VSIM_HASHES") != "" {
			agg.Hashes = append(agg.Hashes, fmt.Sprintf("%d:%s:%d:%d", gs, res.Hash, res.Steps, len(res.Violations)))
		}
		agg.Steps += int64(res.Steps)
		agg.VTimeMs += res.VTimeMs
		agg.Strategies[res.Strategy]++
		if len(agg.FirstSeeds) < 4 {
			agg.FirstSeeds = append(agg.FirstSeeds, gs)
		}
		for k, v := range res.Probes {
			agg.Probes[k] += v
		}
		for k, v := range res.Faults {
			agg.Faults[k] += v
		}
		if res.NonTrivial {
			agg.NonTrivial++
			shapes[res.Shape] = true
		}
		if res.Sample != "" && len(agg.Samples) < 3 {
			agg.Samples = append(agg.Samples, res.Sample)
		}
		if res.Tooling != "" {
			agg.Tooling = append(agg.Tooling, res.Tooling)
			if len(agg.Tooling) > 3 {
				break
			}
		}
		if len(res.Violations) > 0 {
			sigs[res.Sig]++
			if sigs[res.Sig] <= 2 && len(agg.Violations) < 12 {
				res.Log = nil
				agg.Violations = append(agg.Violations, res)
			}
			if len(sigs) >= 8 {
				break
			}
		}
	}
	for s := range shapes {
		agg.Shapes = append(agg.Shapes, s)
	}
	sort.Strings(agg.Shapes)
	agg.WallS = time.Since(start).Seconds()
	writeJSON(out, agg)
}

func writeJSON(path string, v any) {
	b, err := json.Marshal(v)
	if err != nil {
		panic(err)
	}
	if err := os.WriteFile(path, b, 0o644); err != nil {
		panic(err)
	}
}

// Minimize shrinks spec.Keep with ddmin while a violation with the same
// signature persists (same seeds; the schedule seed is kept, so the schedule
// of the shrunk script is whatever that seed yields for it).
func Minimize(t *testing.T, spec Spec, sig string, budget time.Duration) *Result {
	start := time.Now()
	first := RunOne(t, spec)
	if len(first.Violations) == 0 {
		first.Tooling = "minimize: violation did not reproduce"
		return first
	}
	if sig == "" {
		sig = first.Sig
	}
	fails := func(keep []int) *Result {
		s := spec
		s.Keep = keep
		s.Masked = true
		sp := s
		curSpec.Store(&sp)
		r := RunOne(t, s)
		if os.Getenv("VSIM_DEBUG") != "" {
			fmt.Fprintf(os.Stderr, "minimize: keep=%v -> viol=%v sig=%q tooling=%q\n", keep, r.Violations, r.Sig, r.Tooling)
		}
		if len(r.Violations) > 0 && r.Sig == sig && r.Tooling == "" {
			return r
		}
		return nil
	}
	n := first.NOps
	cur := make([]int, n)
	for i := range cur {
		cur[i] = i
	}
	if spec.Masked {
		cur = spec.Keep
	}
	best := first
	gran := 2
	for len(cur) >= 1 && time.Since(start) < budget {
		chunk := (len(cur) + gran - 1) / gran
		reduced := false
		for i := 0; i < len(cur); i += chunk {
			end := i + chunk
			if end > len(cur) {
				end = len(cur)
			}
			cand := append(append([]int{}, cur[:i]...), cur[end:]...)
			if r := fails(cand); r != nil {
				cur = cand
				best = r
				reduced = true
				if gran > 2 {
					gran--
				}
				break
			}
			if time.Since(start) > budget {
				break
			}
		}
		if !reduced {
			if chunk <= 1 {
				break
			}
			gran *= 2
			if gran > len(cur) {
				gran = len(cur)
			}
		}
	}
	// try the simplest schedule
	for _, strat := range []int{2, 3} {
		s := best.Spec
		s.Strategy = strat
		r := RunOne(t, s)
		if len(r.Violations) > 0 && r.Sig == sig {
			best = r
			break
		}
	}
	fin := best.Spec
	fin.KeepLog = true
	r := RunOne(t, fin)
	if len(r.Violations) > 0 && r.Sig == sig {
		return r
	}
	best.Tooling = "minimize: final re-run did not reproduce"
	return best
}
