package vsim

import (
	"fmt"
	"sort"
	"strings"

	"github.com/gammazero/nexus/v3/wamp"
)

// Reference model of one realm, written from the WAMP rules and the property
// statements (not from the implementation). Sequential: Apply one client
// message, get back for every session the multiset of messages it must
// receive. Router-assigned ids are symbolic (S#n subscription, R#n
// registration, P#n publication, I#n invocation); the checker learns the
// bijection with actual ids from what the router sends.

type MSess struct {
	Idx     int
	ID      wamp.ID
	Local   bool
	Details map[string]string // authid, authrole, custom attributes (string-valued session details)
	Feat    map[string]bool   // "role.feature"
	Alive   bool
	InvSeen map[wamp.ID]bool // actual invocation request ids used towards this callee
	Testam  []mTestament
}

type mTestament struct {
	Topic string
	Args  wamp.List
	Kw    wamp.Dict
	Opts  wamp.Dict
	Scope string
}

type MSub struct {
	Sym     int
	Topic   string
	Match   string // "exact", "prefix", "wildcard"
	Subs    []int  // session idx, subscription order
	Hist    *mHist // event history configured
	Deleted bool
}

type mHist struct {
	Limit   int
	Entries []mHistEntry
}

type mHistEntry struct {
	PubSym int
	Topic  string
	Args   wamp.List
	Kw     wamp.Dict
	T      int64 // virtual ms
}

type MReg struct {
	Sym       int
	Proc      string
	Match     string
	Invoke    string
	Callees   []int
	Disclose  bool
	FwdTO     bool
	lastIdx   int  // index in Callees of the last round-robin choice, -1 unknown
	changed   bool // membership changed since last call
	skipMaybe bool // a refused call may have consumed a round-robin turn
	Deleted   bool
}

type MCall struct {
	Caller   int
	Req      wamp.ID
	Callee   int   // chosen callee (or -1 while ambiguous)
	Cands    []int // candidates when the policy leaves freedom
	Reg      *MReg
	InvSym   int
	Canceled string // "" or the kill mode pending
	RecvProg bool
	InProg   bool   // progressive call invocation: the caller has not sent its last chunk yet
	Proc     string // as called
	// Limbo: the callee answered finally while the caller was still sending chunks. The call is
	// complete (no time-out, nothing to cancel); what further chunks and the departure of
	// either side then cause is not specified and left open.
	Limbo    bool
	Done     bool
	Deadline int64 // virtual ms at which the router ends the call (0: no router-side timeout)
	Timeout  int64
}

type MRealm struct {
	URI           string
	Strict        bool
	AllowDisclose bool
	MetaStrict    bool
	MetaModify    bool        // wamp.session.modify_details is provided
	Authz         *TableAuthz // this realm's Authorizer (nil: the executor's, if any)
	LocalAuthz    bool        // ... consulted for local sessions too
	Sess          map[int]*MSess
	Subs          []*MSub
	NoKill        bool // this realm was configured without the kill procedures
	Regs          []*MReg
	Calls         []*MCall
	Lenient       bool // do not model identity disclosure (left to C12)
	nSub, nReg    int
	nPub, nInv    int
}

// Exp is one expected message at a session, in canonical text form.
// Alt lists acceptable alternatives (any one).
type Exp struct {
	To   int
	Text string
	Alt  []string
}

func NewMRealm(uri string, strict, allowDisclose bool) *MRealm {
	return &MRealm{URI: uri, Strict: strict, AllowDisclose: allowDisclose, Sess: map[int]*MSess{}}
}

// ---- URI rules (from the WAMP spec / C19 statement) -------------------------

func compOK(c string, strict bool) bool {
	for _, r := range c {
		if strict {
			if !(r >= '0' && r <= '9' || r >= 'a' && r <= 'z' || r == '_') {
				return false
			}
		} else if r == ' ' || r == '\t' || r == '\n' || r == '\r' || r == '\v' || r == '\f' || r == '.' || r == '#' || r == 0x85 || r == 0xA0 {
			return false
		}
	}
	return true
}

// MValidURI: match is "exact", "prefix" or "wildcard".
func MValidURI(u string, strict bool, match string) bool {
	if u == "" {
		return match != "exact"
	}
	parts := strings.Split(u, ".")
	for i, p := range parts {
		if !compOK(p, strict) {
			return false
		}
		if p == "" {
			switch match {
			case "wildcard":
			case "prefix":
				if i != len(parts)-1 {
					return false
				}
			default:
				return false
			}
		}
	}
	return true
}

func MMatches(topic, pattern, match string) bool {
	switch match {
	case "prefix":
		return strings.HasPrefix(topic, pattern)
	case "wildcard":
		tp, pp := strings.Split(topic, "."), strings.Split(pattern, ".")
		if len(tp) != len(pp) {
			return false
		}
		for i := range pp {
			if pp[i] != "" && pp[i] != tp[i] {
				return false
			}
		}
		return true
	}
	return topic == pattern
}

func normMatch(opts wamp.Dict, key string) string {
	s, _ := opts[key].(string)
	switch s {
	case "prefix", "wildcard":
		return s
	}
	return "exact"
}

// ---- canonical text -----------------------------------------------------------

func symS(n int) string { return fmt.Sprintf("S#%d", n) }
func symR(n int) string { return fmt.Sprintf("R#%d", n) }
func symP(n int) string { return fmt.Sprintf("P#%d", n) }
func symI(n int) string { return fmt.Sprintf("I#%d", n) }

func payload(args wamp.List, kw wamp.Dict) string {
	a := "[]"
	if len(args) > 0 {
		a = CanonVal(NormNums(args))
	}
	k := "{}"
	if len(kw) > 0 {
		k = CanonVal(NormNums(kw))
	}
	return a + "," + k
}

// NormNums normalises numeric representation (ints of any width and
// integral floats print the same) so that observations made over different
// serializers compare equal.
func NormNums(v any) any {
	switch x := v.(type) {
	case wamp.List:
		out := make(wamp.List, len(x))
		for i, e := range x {
			out[i] = NormNums(e)
		}
		return out
	case []any:
		out := make(wamp.List, len(x))
		for i, e := range x {
			out[i] = NormNums(e)
		}
		return out
	case wamp.Dict:
		out := wamp.Dict{}
		for k, e := range x {
			out[k] = NormNums(e)
		}
		return out
	case map[string]any:
		out := wamp.Dict{}
		for k, e := range x {
			out[k] = NormNums(e)
		}
		return out
	case int:
		return int64(x)
	case int8:
		return int64(x)
	case int16:
		return int64(x)
	case int32:
		return int64(x)
	case uint:
		return int64(x)
	case uint8:
		return int64(x)
	case uint16:
		return int64(x)
	case uint32:
		return int64(x)
	case uint64:
		return int64(x)
	case wamp.ID:
		return int64(x)
	case float32:
		if float32(int64(x)) == x {
			return int64(x)
		}
		return float64(x)
	case float64:
		if float64(int64(x)) == x && x < 1e15 && x > -1e15 {
			return int64(x)
		}
		return x
	case wamp.URI:
		return string(x)
	case complex128:
		return fmt.Sprintf("complex%v", x)
	case []wamp.ID:
		out := make(wamp.List, len(x))
		for i, e := range x {
			out[i] = int64(e)
		}
		return out
	}
	return v
}

func detText(kv ...string) string {
	// kv: key,value pairs already rendered; sorted by key
	type p struct{ k, v string }
	var ps []p
	for i := 0; i+1 < len(kv); i += 2 {
		ps = append(ps, p{kv[i], kv[i+1]})
	}
	sort.Slice(ps, func(i, j int) bool { return ps[i].k < ps[j].k })
	var b strings.Builder
	b.WriteByte('{')
	for i, x := range ps {
		if i > 0 {
			b.WriteByte(',')
		}
		b.WriteString(x.k + ":" + x.v)
	}
	b.WriteByte('}')
	return b.String()
}

// ---- sessions -----------------------------------------------------------------

func (m *MRealm) Join(s *MSess) []Exp {
	s.Alive = true
	if s.InvSeen == nil {
		s.InvSeen = map[wamp.ID]bool{}
	}
	m.Sess[s.Idx] = s
	return m.metaEvent(s.Idx, "wamp.session.on_join", fmt.Sprintf("[join:%d:%s:%s]", s.ID, s.Details["authid"], s.Details["authrole"]), true)
}

func (m *MRealm) has(s int, feat string) bool { return m.Sess[s].Feat[feat] }

// metaSubsFor: sessions subscribed (any policy) to the meta topic, except the
// causing session when notCause is set.
func (m *MRealm) metaEvent(cause int, topic string, argsText string, notCause bool) []Exp {
	var out []Exp
	for _, sub := range m.Subs {
		if sub.Deleted || !MMatches(topic, sub.Topic, sub.Match) {
			continue
		}
		for _, r := range sub.Subs {
			if notCause && r == cause {
				continue
			}
			det := "{}"
			if sub.Match != "exact" {
				det = detText("topic", fmt.Sprintf("%q", topic))
			}
			out = append(out, Exp{To: r, Text: fmt.Sprintf("EVENT(%s,*,%s,%s)", symS(sub.Sym), det, argsText)})
		}
		// meta events are ordinary publications as far as event history goes;
		// history of wamp.* topics is not modelled (never configured by the generators)
	}
	return out
}

// ---- broker -------------------------------------------------------------------

func (m *MRealm) findSub(topic, match string) *MSub {
	for _, s := range m.Subs {
		if !s.Deleted && s.Topic == topic && s.Match == match {
			return s
		}
	}
	return nil
}

func (m *MRealm) ConfigHistory(topic, match string, limit int) {
	if match == "" {
		match = "exact"
	}
	sub := m.findSub(topic, match)
	if sub == nil {
		m.nSub++
		sub = &MSub{Sym: m.nSub, Topic: topic, Match: match}
		m.Subs = append(m.Subs, sub)
	}
	sub.Hist = &mHist{Limit: limit}
}

func errText(t wamp.MessageType, req wamp.ID, uri string) string {
	return fmt.Sprintf("ERROR(%d,%d,%s)", int(t), req, uri)
}

func (m *MRealm) Subscribe(s int, req wamp.ID, opts wamp.Dict, topic string) []Exp {
	match := normMatch(opts, "match")
	if !MValidURI(topic, m.Strict, match) {
		return []Exp{{To: s, Text: errText(wamp.SUBSCRIBE, req, "wamp.error.invalid_uri")}}
	}
	var out []Exp
	sub := m.findSub(topic, match)
	created := false
	if sub == nil {
		m.nSub++
		sub = &MSub{Sym: m.nSub, Topic: topic, Match: match}
		m.Subs = append(m.Subs, sub)
		created = true
	}
	out = append(out, Exp{To: s, Text: fmt.Sprintf("SUBSCRIBED(%d,%s)", req, symS(sub.Sym))})
	for _, x := range sub.Subs {
		if x == s {
			return out // already subscribed: same id, nothing announced
		}
	}
	first := len(sub.Subs) == 0
	sub.Subs = append(sub.Subs, s)
	sid := m.Sess[s].ID
	if created || (first && sub.Hist != nil) {
		// a subscription coming into existence through a subscribe request
		if created {
			out = append(out, m.metaEvent(s, "wamp.subscription.on_create", fmt.Sprintf("[%d,subinfo:%s:%q:%s]", sid, symS(sub.Sym), topic, match), true)...)
		}
	}
	out = append(out, m.metaEvent(s, "wamp.subscription.on_subscribe", fmt.Sprintf("[%d,%s]", sid, symS(sub.Sym)), true)...)
	return out
}

func (m *MRealm) subBySym(sym int) *MSub {
	for _, s := range m.Subs {
		if s.Sym == sym && !s.Deleted {
			return s
		}
	}
	return nil
}

// Unsubscribe: sym is the model's subscription (0 = unknown id).
func (m *MRealm) Unsubscribe(s int, req wamp.ID, sym int) []Exp {
	sub := m.subBySym(sym)
	if sub == nil {
		return []Exp{{To: s, Text: errText(wamp.UNSUBSCRIBE, req, "wamp.error.no_such_subscription")}}
	}
	idx := -1
	for i, x := range sub.Subs {
		if x == s {
			idx = i
		}
	}
	if idx < 0 {
		// another session's subscription: must not be touched; either answer is accepted
		return []Exp{{To: s, Alt: []string{fmt.Sprintf("UNSUBSCRIBED(%d)", req), errText(wamp.UNSUBSCRIBE, req, "wamp.error.no_such_subscription")}}}
	}
	sub.Subs = append(sub.Subs[:idx], sub.Subs[idx+1:]...)
	out := []Exp{{To: s, Text: fmt.Sprintf("UNSUBSCRIBED(%d)", req)}}
	sid := m.Sess[s].ID
	out = append(out, m.metaEvent(s, "wamp.subscription.on_unsubscribe", fmt.Sprintf("[%d,%s]", sid, symS(sub.Sym)), true)...)
	if len(sub.Subs) == 0 && sub.Hist == nil {
		sub.Deleted = true
		out = append(out, m.metaEvent(s, "wamp.subscription.on_delete", fmt.Sprintf("[%d,%s]", sid, symS(sub.Sym)), true)...)
	}
	return out
}

func strList(v any) ([]string, bool) {
	l, ok := wamp.AsList(v)
	if !ok {
		return nil, false
	}
	var out []string
	for _, e := range l {
		if s, ok := wamp.AsString(e); ok && s != "" {
			out = append(out, s)
		}
	}
	return out, true
}

func idList(v any) ([]wamp.ID, bool) {
	l, ok := wamp.AsList(v)
	if !ok {
		return nil, false
	}
	var out []wamp.ID
	for _, e := range l {
		if id, ok := wamp.AsID(e); ok {
			out = append(out, id)
		}
	}
	return out, true
}

func contains[T comparable](l []T, x T) bool {
	for _, e := range l {
		if e == x {
			return true
		}
	}
	return false
}

// eligible: the publication's exclude/eligible options against one session.
func (m *MRealm) eligible(opts wamp.Dict, r *MSess) bool {
	if ids, ok := idList(opts["exclude"]); ok && contains(ids, r.ID) {
		return false
	}
	if ids, ok := idList(opts["eligible"]); ok && len(ids) > 0 && !contains(ids, r.ID) {
		return false
	}
	for k, v := range opts {
		if attr, ok := strings.CutPrefix(k, "exclude_"); ok && attr != "me" {
			if vals, ok := strList(v); ok && len(vals) > 0 {
				if a := r.Details[attr]; a != "" && contains(vals, a) {
					return false
				}
			}
		}
		if attr, ok := strings.CutPrefix(k, "eligible_"); ok {
			if vals, ok := strList(v); ok && len(vals) > 0 {
				if a := r.Details[attr]; a == "" || !contains(vals, a) {
					return false
				}
			}
		}
	}
	return true
}

// Publish returns expectations and the publication symbol (0 if none).
func (m *MRealm) Publish(s int, req wamp.ID, opts wamp.Dict, topic string, args wamp.List, kw wamp.Dict, nowMs int64) ([]Exp, int) {
	ack, _ := opts["acknowledge"].(bool)
	if !MValidURI(topic, m.Strict, "exact") {
		if ack {
			return []Exp{{To: s, Text: errText(wamp.PUBLISH, req, "wamp.error.invalid_uri")}}, 0
		}
		return nil, 0
	}
	disclose, _ := opts["disclose_me"].(bool)
	if disclose && !m.AllowDisclose {
		if ack {
			return []Exp{{To: s, Text: errText(wamp.PUBLISH, req, "wamp.error.option_disallowed.disclose_me")}}, 0
		}
		return nil, 0
	}
	excludeMe := true
	if b, ok := opts["exclude_me"].(bool); ok {
		excludeMe = b
	}
	m.nPub++
	p := m.nPub
	var out []Exp
	pub := m.Sess[s]
	for _, sub := range m.Subs {
		if sub.Deleted || !MMatches(topic, sub.Topic, sub.Match) {
			continue
		}
		for _, r := range sub.Subs {
			if r == s && excludeMe {
				continue
			}
			rs := m.Sess[r]
			if !m.eligible(opts, rs) {
				continue
			}
			var kv []string
			if sub.Match != "exact" {
				kv = append(kv, "topic", fmt.Sprintf("%q", topic))
			}
			if disclose && rs.Feat["subscriber.publisher_identification"] && !m.Lenient {
				kv = append(kv, "publisher", fmt.Sprint(pub.ID))
				if a, ok := pub.Details["authid"]; ok {
					kv = append(kv, "publisher_authid", fmt.Sprintf("%q", a))
				}
				if a, ok := pub.Details["authrole"]; ok {
					kv = append(kv, "publisher_authrole", fmt.Sprintf("%q", a))
				}
			}
			out = append(out, Exp{To: r, Text: fmt.Sprintf("EVENT(%s,%s,%s,%s)", symS(sub.Sym), symP(p), detText(kv...), payload(args, kw))})
		}
		if sub.Hist != nil {
			_, hasEx := opts["exclude"]
			_, hasEl := opts["eligible"]
			if !hasEx && !hasEl {
				sub.Hist.Entries = append(sub.Hist.Entries, mHistEntry{PubSym: p, Topic: topic, Args: args, Kw: kw, T: nowMs})
				if len(sub.Hist.Entries) > sub.Hist.Limit {
					sub.Hist.Entries = sub.Hist.Entries[1:]
				}
			}
		}
	}
	if ack {
		out = append(out, Exp{To: s, Text: fmt.Sprintf("PUBLISHED(%d,%s)", req, symP(p))})
	}
	return out, p
}

// ---- dealer -------------------------------------------------------------------

func (m *MRealm) findReg(proc, match string) *MReg {
	for _, r := range m.Regs {
		if !r.Deleted && r.Proc == proc && r.Match == match {
			return r
		}
	}
	return nil
}

func (m *MRealm) regBySym(sym int) *MReg {
	for _, r := range m.Regs {
		if r.Sym == sym && !r.Deleted {
			return r
		}
	}
	return nil
}

func normInvoke(opts wamp.Dict) string {
	s, _ := opts["invoke"].(string)
	return s
}

func (m *MRealm) Register(s int, req wamp.ID, opts wamp.Dict, proc string) []Exp {
	match := normMatch(opts, "match")
	if !MValidURI(proc, m.Strict, match) || strings.HasPrefix(proc, "wamp.") {
		return []Exp{{To: s, Text: errText(wamp.REGISTER, req, "wamp.error.invalid_uri")}}
	}
	disclose, _ := opts["disclose_caller"].(bool)
	if disclose && !m.AllowDisclose && m.Sess[s].Details["authrole"] != "trusted" {
		return []Exp{{To: s, Text: errText(wamp.REGISTER, req, "wamp.error.option_disallowed.disclose_me")}}
	}
	invoke := normInvoke(opts)
	fwd, _ := opts["forward_timeout"].(bool)
	sid := m.Sess[s].ID
	reg := m.findReg(proc, match)
	if reg != nil {
		shared := func(p string) bool { return p == "first" || p == "last" || p == "roundrobin" || p == "random" }
		if !shared(reg.Invoke) || reg.Invoke != invoke {
			return []Exp{{To: s, Text: errText(wamp.REGISTER, req, "wamp.error.procedure_already_exists")}}
		}
		out := []Exp{{To: s, Text: fmt.Sprintf("REGISTERED(%d,%s)", req, symR(reg.Sym))}}
		if contains(reg.Callees, s) {
			return out
		}
		reg.Callees = append(reg.Callees, s)
		reg.changed = true
		out = append(out, m.metaEvent(s, "wamp.registration.on_register", fmt.Sprintf("[%d,%s]", sid, symR(reg.Sym)), false)...)
		return out
	}
	m.nReg++
	reg = &MReg{Sym: m.nReg, Proc: proc, Match: match, Invoke: invoke, Callees: []int{s}, Disclose: disclose, FwdTO: fwd, lastIdx: -1}
	m.Regs = append(m.Regs, reg)
	out := []Exp{{To: s, Text: fmt.Sprintf("REGISTERED(%d,%s)", req, symR(reg.Sym))}}
	out = append(out, m.metaEvent(s, "wamp.registration.on_create", fmt.Sprintf("[%d,reginfo:%s:%q:%s:%q]", sid, symR(reg.Sym), proc, match, invoke), false)...)
	out = append(out, m.metaEvent(s, "wamp.registration.on_register", fmt.Sprintf("[%d,%s]", sid, symR(reg.Sym)), false)...)
	return out
}

func (m *MRealm) removeCallee(reg *MReg, s int) (deleted bool) {
	for i, c := range reg.Callees {
		if c == s {
			reg.Callees = append(reg.Callees[:i], reg.Callees[i+1:]...)
			reg.changed = true
			break
		}
	}
	if len(reg.Callees) == 0 {
		reg.Deleted = true
		return true
	}
	return false
}

func (m *MRealm) Unregister(s int, req wamp.ID, sym int) []Exp {
	reg := m.regBySym(sym)
	if reg == nil {
		return []Exp{{To: s, Text: errText(wamp.UNREGISTER, req, "wamp.error.no_such_registration")}}
	}
	if !contains(reg.Callees, s) {
		// another session's registration: must not be touched; either answer is accepted
		return []Exp{{To: s, Alt: []string{fmt.Sprintf("UNREGISTERED(%d)", req), errText(wamp.UNREGISTER, req, "wamp.error.no_such_registration")}}}
	}
	sid := m.Sess[s].ID
	del := m.removeCallee(reg, s)
	out := []Exp{{To: s, Text: fmt.Sprintf("UNREGISTERED(%d)", req)}}
	out = append(out, m.metaEvent(s, "wamp.registration.on_unregister", fmt.Sprintf("[%d,%s]", sid, symR(reg.Sym)), false)...)
	if del {
		out = append(out, m.metaEvent(s, "wamp.registration.on_delete", fmt.Sprintf("[%d,%s]", sid, symR(reg.Sym)), false)...)
	}
	return out
}

// MatchProc: best registration for a procedure: exact, else longest prefix,
// else a matching wildcard (any of them: returned as candidates).
func (m *MRealm) MatchProc(proc string) []*MReg {
	if r := m.findReg(proc, "exact"); r != nil {
		return []*MReg{r}
	}
	best := -1
	var cands []*MReg
	for _, r := range m.Regs {
		if r.Deleted || r.Match != "prefix" || !MMatches(proc, r.Proc, "prefix") {
			continue
		}
		if len(r.Proc) > best {
			best = len(r.Proc)
			cands = []*MReg{r}
		}
	}
	if cands != nil {
		return cands
	}
	for _, r := range m.Regs {
		if !r.Deleted && r.Match == "wildcard" && MMatches(proc, r.Proc, "wildcard") {
			cands = append(cands, r)
		}
	}
	return cands
}

func (m *MRealm) pickCallees(reg *MReg) []int {
	n := len(reg.Callees)
	switch {
	case n == 1:
		return []int{reg.Callees[0]}
	case reg.Invoke == "first":
		return []int{reg.Callees[0]}
	case reg.Invoke == "last":
		return []int{reg.Callees[n-1]}
	case reg.Invoke == "roundrobin":
		if reg.changed || reg.lastIdx < 0 {
			return append([]int{}, reg.Callees...) // rotation restarts somewhere after a membership change
		}
		if reg.skipMaybe {
			// a refused call may or may not have consumed a turn
			return []int{reg.Callees[(reg.lastIdx+1)%n], reg.Callees[(reg.lastIdx+2)%n]}
		}
		return []int{reg.Callees[(reg.lastIdx+1)%n]}
	}
	return append([]int{}, reg.Callees...) // random (or anything else): any member
}

func (m *MRealm) invDetails(reg *MReg, caller, callee *MSess, opts wamp.Dict, proc string) string {
	var kv []string
	discloseMe, _ := opts["disclose_me"].(bool)
	ident := false
	if reg.Disclose {
		ident = true
	} else if discloseMe && callee.Feat["callee.caller_identification"] {
		ident = true
	}
	if ident && !m.Lenient {
		kv = append(kv, "caller", fmt.Sprint(caller.ID))
		if a, ok := caller.Details["authid"]; ok {
			kv = append(kv, "caller_authid", fmt.Sprintf("%q", a))
		}
		if a, ok := caller.Details["authrole"]; ok {
			kv = append(kv, "caller_authrole", fmt.Sprintf("%q", a))
		}
	}
	if rp, _ := opts["receive_progress"].(bool); rp && callee.Feat["callee.progressive_call_results"] && callee.Feat["callee.call_canceling"] {
		kv = append(kv, "receive_progress", "true")
	}
	if reg.Match != "exact" {
		kv = append(kv, "procedure", fmt.Sprintf("%q", proc))
	}
	if to, ok := wamp.AsInt64(opts["timeout"]); ok && to > 0 && reg.FwdTO && callee.Feat["callee.call_timeout"] {
		kv = append(kv, "timeout", fmt.Sprint(to))
	}
	if p, _ := opts["progress"].(bool); p {
		kv = append(kv, "progress", "true") // first chunk of a progressive call invocation
	}
	return detText(kv...)
}

// Call: returns expectations. When the policy leaves the callee open the
// INVOCATION expectation is an Alt over candidate callees handled by the
// checker through CallResolve.
func (m *MRealm) Call(s int, req wamp.ID, opts wamp.Dict, proc string, args wamp.List, kw wamp.Dict) ([]Exp, *MCall) {
	prog, _ := opts["progress"].(bool)
	// A further chunk of a progressive call invocation: same callee, same
	// invocation id, whatever is registered by now; nothing but the progress
	// flag in the details (identity, procedure, timeout went with the first).
	if c := m.callByReq(s, req); c != nil && c.InProg && c.Callee >= 0 {
		c.InProg = prog
		det := "{}"
		if prog {
			det = detText("progress", "true")
		}
		return []Exp{{To: c.Callee, Text: fmt.Sprintf("INVOCATION(%s,%s,%s,%s)", symI(c.InvSym), symR(c.Reg.Sym), det, payload(args, kw))}}, nil
	}
	for _, c := range m.Calls {
		if c.Limbo && c.InProg && c.Caller == s && c.Req == req && c.Callee >= 0 {
			c.InProg = prog
			det := "{}"
			if prog {
				det = detText("progress", "true")
			}
			return []Exp{{To: c.Callee, Alt: []string{fmt.Sprintf("INVOCATION(%s,%s,%s,%s)", symI(c.InvSym), symR(c.Reg.Sym), det, payload(args, kw)), ""}}}, nil
		}
	}
	regs := m.MatchProc(proc)
	if len(regs) == 0 {
		return []Exp{{To: s, Text: errText(wamp.CALL, req, "wamp.error.no_such_procedure")}}, nil
	}
	discloseMe, _ := opts["disclose_me"].(bool)
	caller := m.Sess[s]
	m.nInv++
	call := &MCall{Caller: s, Req: req, Callee: -1, InvSym: m.nInv, Proc: proc}
	call.RecvProg, _ = opts["receive_progress"].(bool)
	if to, ok := wamp.AsInt64(opts["timeout"]); ok && to > 0 {
		call.Timeout = to
	}
	// Every (registration, callee) the rules allow.
	type cand struct {
		reg    *MReg
		callee int
	}
	var cs []cand
	for _, reg := range regs {
		for _, c := range m.pickCallees(reg) {
			cs = append(cs, cand{reg, c})
		}
	}
	var alts []string
	var tos []int
	refused := true
	someRefused := false
	refusals := map[string]bool{}
	for _, c := range cs {
		callee := m.Sess[c.callee]
		if prog && !(callee.Feat["callee.progressive_call_invocations"] && callee.Feat["callee.call_canceling"]) {
			// a callee that cannot take (or cannot be interrupted in) a progressive call invocation
			someRefused = true
			refusals["wamp.error.feature_not_supported"] = true
			continue
		}
		if discloseMe && !c.reg.Disclose && !m.AllowDisclose {
			someRefused = true
			refusals["wamp.error.option_disallowed.disclose_me"] = true
			continue
		}
		refused = false
		det := m.invDetails(c.reg, caller, callee, opts, proc)
		alts = append(alts, fmt.Sprintf("INVOCATION(%s,%s,%s,%s)", symI(call.InvSym), symR(c.reg.Sym), det, payload(args, kw)))
		tos = append(tos, c.callee)
	}
	if refused {
		for _, c := range cs {
			m.noteRefused(c.reg)
		}
		if len(refusals) == 1 {
			for uri := range refusals {
				return []Exp{{To: s, Text: errText(wamp.CALL, req, uri)}}, nil
			}
		}
		var rs []string
		for uri := range refusals {
			rs = append(rs, errText(wamp.CALL, req, uri))
		}
		sort.Strings(rs)
		return []Exp{{To: s, Alt: rs}}, nil
	}
	call.InProg = prog
	call.Cands = tos
	m.Calls = append(m.Calls, call)
	if len(alts) == 1 && !someRefused {
		call.Callee = tos[0]
		call.Reg = cs[0].reg
		m.noteRR(call.Reg, call.Callee)
		return []Exp{{To: tos[0], Text: alts[0]}}, call
	}
	// ambiguous: checker resolves by observing who got it
	out := make([]Exp, 0, len(alts))
	for i := range alts {
		out = append(out, Exp{To: tos[i], Text: alts[i], Alt: []string{"?choice"}})
	}
	if someRefused {
		// one of the equally good registrations / callees would refuse the call: that outcome is as right as the others
		var rs []string
		for uri := range refusals {
			rs = append(rs, uri)
		}
		sort.Strings(rs)
		for _, uri := range rs {
			out = append(out, Exp{To: s, Text: errText(wamp.CALL, req, uri), Alt: []string{"?choice"}})
		}
	}
	// remember the registrations for resolution
	call.Reg = nil
	for _, c := range cs {
		_ = c
	}
	callRegs[call] = func(callee int, regSym int) *MReg {
		for _, c := range cs {
			if c.callee == callee && (regSym == 0 || c.reg.Sym == regSym) {
				return c.reg
			}
		}
		return nil
	}
	return out, call
}

var callRegs = map[*MCall]func(int, int) *MReg{}

// noteRefused: the rules do not say whether a call refused after the callee
// was chosen counts as that callee's turn of a round-robin rotation.
func (m *MRealm) noteRefused(reg *MReg) {
	if reg.Invoke != "roundrobin" || len(reg.Callees) < 2 {
		return
	}
	if reg.skipMaybe {
		reg.changed = true // several in a row: position unknown
	}
	reg.skipMaybe = true
}

func (m *MRealm) noteRR(reg *MReg, callee int) {
	reg.skipMaybe = false
	for i, c := range reg.Callees {
		if c == callee {
			reg.lastIdx = i
		}
	}
	reg.changed = false
}

// CallResolve fixes the callee of an ambiguous call after observation.
func (m *MRealm) CallResolve(call *MCall, callee int, regSym int) {
	if regSym == 0 && callee == call.Caller && !contains(call.Cands, callee) || regSym < 0 {
		// the refusing registration was chosen: no call came into being
		if f := callRegs[call]; f != nil {
			for _, r := range m.Regs {
				if r.Invoke == "roundrobin" && !r.Disclose {
					for _, c := range r.Callees {
						if f(c, r.Sym) == r {
							m.noteRefused(r)
							break
						}
					}
				}
			}
		}
		call.Done = true
		delete(callRegs, call)
		return
	}
	call.Callee = callee
	if f := callRegs[call]; f != nil {
		call.Reg = f(callee, regSym)
		delete(callRegs, call)
	}
	if call.Reg != nil {
		m.noteRR(call.Reg, callee)
	}
}

func (m *MRealm) callByInv(callee int, invSym int) *MCall {
	for _, c := range m.Calls {
		if !c.Done && c.InvSym == invSym && c.Callee == callee {
			return c
		}
	}
	return nil
}

func (m *MRealm) finish(c *MCall) { c.Done = true }

// Yield from callee for invocation symbol (0 = unknown / foreign id).
func (m *MRealm) Yield(s int, invSym int, progress bool, args wamp.List, kw wamp.Dict) []Exp {
	c := m.callByInv(s, invSym)
	if c == nil {
		if progress {
			// progressive result for a call that is gone: the callee is told to stop
			return []Exp{{To: s, Alt: []string{"INTERRUPT(?)", ""}}}
		}
		return nil
	}
	if c.Canceled == "skip" || c.Canceled == "killnowait" {
		return nil
	}
	det := "{}"
	if progress {
		det = detText("progress", "true")
	} else {
		m.finish(c)
		if c.InProg {
			c.Limbo = true
		}
	}
	if !m.Sess[c.Caller].Alive {
		return nil
	}
	return []Exp{{To: c.Caller, Text: fmt.Sprintf("RESULT(%d,%s,%s)", c.Req, det, payload(args, kw))}}
}

func (m *MRealm) InvError(s int, invSym int, uri string, args wamp.List, kw wamp.Dict) []Exp {
	c := m.callByInv(s, invSym)
	if c == nil {
		return nil
	}
	m.finish(c)
	if c.InProg {
		c.Limbo = true
	}
	if c.Canceled == "skip" || c.Canceled == "killnowait" || !m.Sess[c.Caller].Alive {
		return nil
	}
	return []Exp{{To: c.Caller, Text: fmt.Sprintf("ERRORP(%d,%d,%s,%s)", int(wamp.CALL), c.Req, uri, payload(args, kw))}}
}

func (m *MRealm) callByReq(s int, req wamp.ID) *MCall {
	for _, c := range m.Calls {
		if !c.Done && c.Caller == s && c.Req == req {
			return c
		}
	}
	return nil
}

// Cancel from session s for its request req.
func (m *MRealm) Cancel(s int, req wamp.ID, opts wamp.Dict) []Exp {
	mode := "killnowait"
	if v, ok := opts["mode"]; ok {
		ms, _ := v.(string)
		switch ms {
		case "skip", "kill", "killnowait":
			mode = ms
		case "":
		default:
			return []Exp{{To: s, Text: errText(wamp.CANCEL, req, "wamp.error.invalid_argument")}}
		}
	}
	c := m.callByReq(s, req)
	if c == nil || c.Canceled != "" || c.Callee < 0 {
		return nil
	}
	callee := m.Sess[c.Callee]
	canInt := callee.Feat["callee.call_canceling"]
	var out []Exp
	if mode != "skip" && canInt {
		out = append(out, Exp{To: c.Callee, Text: fmt.Sprintf("INTERRUPT(%s,%s)", symI(c.InvSym), mode)})
		if mode == "kill" {
			c.Canceled = "kill"
			return out
		}
	}
	c.Canceled = "killnowait"
	m.finish(c)
	out = append(out, Exp{To: s, Text: errText(wamp.CALL, req, "wamp.error.canceled")})
	return out
}

// Leave: session s ends (any reason). announce=false for kill_all / shutdown.
func (m *MRealm) Leave(s int, announce bool) []Exp {
	sess := m.Sess[s]
	if sess == nil || !sess.Alive {
		return nil
	}
	sess.Alive = false
	var out []Exp
	sid := sess.ID
	// registrations
	for _, reg := range m.Regs {
		if reg.Deleted || !contains(reg.Callees, s) {
			continue
		}
		del := m.removeCallee(reg, s)
		out = append(out, m.metaEvent(s, "wamp.registration.on_unregister", fmt.Sprintf("[%d,%s]", sid, symR(reg.Sym)), false)...)
		if del {
			out = append(out, m.metaEvent(s, "wamp.registration.on_delete", fmt.Sprintf("[%d,%s]", sid, symR(reg.Sym)), false)...)
		}
	}
	// calls it was serving are answered with an error; its own calls are abandoned
	for _, c := range m.Calls {
		if c.Limbo && (c.Callee == s || c.Caller == s) {
			c.Limbo = false
			if c.Callee == s && (c.Caller == s || m.Sess[c.Caller].Alive) {
				out = append(out, Exp{To: c.Caller, Alt: []string{fmt.Sprintf("ERROR(%d,%d,*)", int(wamp.CALL), c.Req), ""}})
			}
		}
		if c.Done {
			continue
		}
		if c.Callee == s {
			m.finish(c)
			if c.Caller == s {
				// calling oneself and leaving: an error to the departing session is allowed, not required
				out = append(out, Exp{To: s, Alt: []string{fmt.Sprintf("ERROR(%d,%d,*)", int(wamp.CALL), c.Req), ""}})
			} else if m.Sess[c.Caller].Alive && c.Canceled != "killnowait" && c.Canceled != "skip" {
				out = append(out, Exp{To: c.Caller, Text: fmt.Sprintf("ERROR(%d,%d,*)", int(wamp.CALL), c.Req)})
			}
		} else if c.Caller == s {
			m.finish(c)
		}
	}
	// subscriptions
	for _, sub := range m.Subs {
		if sub.Deleted {
			continue
		}
		for i, x := range sub.Subs {
			if x == s {
				sub.Subs = append(sub.Subs[:i], sub.Subs[i+1:]...)
				if len(sub.Subs) == 0 && sub.Hist == nil {
					sub.Deleted = true
					out = append(out, m.metaEvent(s, "wamp.subscription.on_delete", fmt.Sprintf("[%d,%s]", sid, symS(sub.Sym)), true)...)
				}
				break
			}
		}
	}
	// whether the departing session still sees the announcements of its own
	// departure is not determined
	for i := range out {
		if out[i].To == s && len(out[i].Alt) == 0 {
			out[i].Alt = []string{out[i].Text, ""}
		}
	}
	delete(m.Sess, s)
	m.Sess[s] = sess // keep for lookups of dead sessions
	if announce {
		for _, t := range sess.Testam {
			ex, _ := m.publishAs(-1, t.Opts, t.Topic, t.Args, t.Kw)
			out = append(out, ex...)
		}
		out = append(out, m.metaEvent(s, "wamp.session.on_leave", fmt.Sprintf("[%d,%q,%q]", sid, sess.Details["authid"], sess.Details["authrole"]), true)...)
	}
	sess.Testam = nil
	return out
}

// publishAs: a publication made by the realm itself (testaments).
func (m *MRealm) publishAs(_ int, opts wamp.Dict, topic string, args wamp.List, kw wamp.Dict) ([]Exp, int) {
	if !MValidURI(topic, m.Strict, "exact") {
		return nil, 0
	}
	m.nPub++
	p := m.nPub
	var out []Exp
	for _, sub := range m.Subs {
		if sub.Deleted || !MMatches(topic, sub.Topic, sub.Match) {
			continue
		}
		for _, r := range sub.Subs {
			if !m.eligible(opts, m.Sess[r]) {
				continue
			}
			det := "{}"
			if sub.Match != "exact" {
				det = detText("topic", fmt.Sprintf("%q", topic))
			}
			out = append(out, Exp{To: r, Text: fmt.Sprintf("EVENT(%s,%s,%s,%s)", symS(sub.Sym), symP(p), det, payload(args, kw))})
		}
	}
	return out, p
}

// Live sessions (sorted idx).
func (m *MRealm) Live() []int {
	var out []int
	for i, s := range m.Sess {
		if s.Alive {
			out = append(out, i)
		}
	}
	sort.Ints(out)
	return out
}

// ArmTimeout is called once the callee of a call is known: the router times
// the call out itself unless the callee handles the timeout (registered with
// forward_timeout and supports call_timeout).
func (m *MRealm) ArmTimeout(c *MCall, nowMs int64) {
	if c == nil || c.Timeout <= 0 || c.Callee < 0 || c.Reg == nil {
		return
	}
	if c.Reg.FwdTO && m.Sess[c.Callee].Feat["callee.call_timeout"] {
		return
	}
	c.Deadline = nowMs + c.Timeout
}

// NextDeadline returns the earliest pending router-side call deadline (0 if none).
func (m *MRealm) NextDeadline() int64 {
	var d int64
	for _, c := range m.Calls {
		if c.Done || c.Deadline == 0 || c.Canceled != "" {
			continue
		}
		if d == 0 || c.Deadline < d {
			d = c.Deadline
		}
	}
	return d
}

// Expire ends every call whose deadline has been reached: wamp.error.timeout
// to the caller, INTERRUPT as for killnowait to a callee that can be interrupted.
func (m *MRealm) Expire(nowMs int64) []Exp {
	var out []Exp
	for _, c := range m.Calls {
		if c.Done || c.Deadline == 0 || c.Canceled != "" || c.Deadline > nowMs {
			continue
		}
		if m.Sess[c.Callee].Alive && m.Sess[c.Callee].Feat["callee.call_canceling"] {
			out = append(out, Exp{To: c.Callee, Text: fmt.Sprintf("INTERRUPT(%s,killnowait)", symI(c.InvSym))})
		}
		c.Canceled = "killnowait"
		m.finish(c)
		if m.Sess[c.Caller].Alive {
			out = append(out, Exp{To: c.Caller, Text: errText(wamp.CALL, c.Req, "wamp.error.timeout")})
		}
	}
	return out
}
