package vsim

import (
	"fmt"
	"reflect"
	"sort"
	"strings"
	"time"

	"github.com/gammazero/nexus/v3/wamp"
)

// Meta API part of the reference model. A meta call is described in model
// terms (MetaArg: plain values, or references to model objects); the model
// answers with the expected canonical text of the RESULT/ERROR and the side
// effects (kills, testaments).

// MetaRef refers to a model object in a meta call argument.
type MetaRef struct {
	Class string // "S" subscription, "R" registration, "sess"
	Sym   int    // symbol (S/R) or session idx; 0 / -1 = unknown id
}

func sortedJoin(xs []string) string {
	sort.Strings(xs)
	return "{" + strings.Join(xs, ",") + "}"
}

func (m *MRealm) liveSess() []*MSess {
	var out []*MSess
	for _, i := range m.Live() {
		out = append(out, m.Sess[i])
	}
	return out
}

func roleFilter(args []any) ([]string, bool, bool) {
	// returns (roles, present, valid)
	if len(args) == 0 {
		return nil, false, true
	}
	l, ok := wamp.AsList(args[0])
	if !ok {
		return nil, true, false
	}
	var out []string
	for _, e := range l {
		s, ok := wamp.AsString(e)
		if !ok {
			return nil, true, false
		}
		out = append(out, s)
	}
	return out, true, true
}

func metaErr(req wamp.ID, uri string) string { return errText(wamp.CALL, req, uri) }

// MetaResultText renders an actual RESULT of a meta call in canonical form.
type MetaRender func(b *Binder, res *wamp.Result) string

func idsText(class string, b *Binder, v any) string {
	l, ok := wamp.AsList(v)
	if !ok {
		if v == nil {
			return "{}"
		}
		return "?" + CanonVal(NormNums(v))
	}
	var xs []string
	for _, e := range l {
		id, _ := wamp.AsID(e)
		if class == "R" {
			if b.internalReg[id] {
				continue // the realm's own wamp.* registrations, learnt at start
			}
			if _, bound := b.reg[id]; !bound && (b.minClientReg == 0 || id < b.minClientReg) {
				continue // registered before any client registration: the realm's own
			}
		}
		xs = append(xs, idText(class, b, id))
	}
	return sortedJoin(xs)
}

func idText(class string, b *Binder, id wamp.ID) string {
	switch class {
	case "S":
		if s, ok := b.sub[id]; ok {
			return symS(s)
		}
		return fmt.Sprintf("S?%d", id)
	case "R":
		if s, ok := b.reg[id]; ok {
			return symR(s)
		}
		return fmt.Sprintf("R?%d", id)
	}
	return fmt.Sprint(id)
}

func arg0(res *wamp.Result) any {
	if len(res.Arguments) == 0 {
		return nil
	}
	return res.Arguments[0]
}

// killed describes sessions the call ends.
type metaEffect struct {
	Kill   []int
	Reason string
	All    bool
}

// Meta evaluates a meta procedure call from session s.
// args/kw are the actual arguments; refs[i] (if set) gives the model meaning of args[i].
func (m *MRealm) Meta(s int, req wamp.ID, proc string, args wamp.List, kw wamp.Dict, refs map[int]MetaRef, metaKill bool) (want string, render MetaRender, eff *metaEffect) {
	res := func(body string) string { return fmt.Sprintf("META(%d,%s)", req, body) }
	plain := func(body func(b *Binder, r *wamp.Result) string) MetaRender {
		return func(b *Binder, r *wamp.Result) string { return fmt.Sprintf("META(%d,%s)", req, body(b, r)) }
	}
	ref := func(i int, class string) (MetaRef, bool) {
		if r, ok := refs[i]; ok && r.Class == class {
			return r, true
		}
		return MetaRef{}, false
	}
	switch proc {
	case "wamp.session.count", "wamp.session.list":
		roles, present, valid := roleFilter(args)
		if !valid {
			return metaErr(req, "wamp.error.invalid_argument"), nil, nil
		}
		var ids []string
		for _, x := range m.liveSess() {
			if present && len(roles) > 0 && !contains(roles, x.Details["authrole"]) {
				continue
			}
			ids = append(ids, fmt.Sprint(x.ID))
		}
		if proc == "wamp.session.count" {
			return res(fmt.Sprintf("count:%d", len(ids))), plain(func(b *Binder, r *wamp.Result) string {
				n, _ := wamp.AsInt64(arg0(r))
				return fmt.Sprintf("count:%d", n)
			}), nil
		}
		return res("sessions:" + sortedJoin(ids)), plain(func(b *Binder, r *wamp.Result) string { return "sessions:" + idsText("sess", b, arg0(r)) }), nil
	case "wamp.session.get":
		r0, ok := ref(0, "sess")
		if !ok || r0.Sym < 0 || m.Sess[r0.Sym] == nil || !m.Sess[r0.Sym].Alive {
			return metaErr(req, "wamp.error.no_such_session"), nil, nil
		}
		x := m.Sess[r0.Sym]
		return res(fmt.Sprintf("session:%d:%s:%s", x.ID, x.Details["authid"], x.Details["authrole"])), plain(func(b *Binder, r *wamp.Result) string {
			d, _ := wamp.AsDict(arg0(r))
			sid, _ := wamp.AsID(d["session"])
			a, _ := wamp.AsString(d["authid"])
			ro, _ := wamp.AsString(d["authrole"])
			leak := ""
			if tr, ok := wamp.AsDict(d["transport"]); ok {
				if _, bad := tr["auth"]; bad {
					leak = ":LEAKS-transport.auth"
				}
			}
			return fmt.Sprintf("session:%d:%s:%s%s", sid, a, ro, leak)
		}), nil
	case "wamp.session.kill":
		if !metaKill {
			return metaErr(req, "wamp.error.no_such_procedure"), nil, nil
		}
		r0, ok := ref(0, "sess")
		reason, _ := wamp.AsString(kw["reason"])
		badReason := reason != "" && !MValidURI(reason, false, "exact")
		if !ok || r0.Sym < 0 || r0.Sym == s || m.Sess[r0.Sym] == nil || !m.Sess[r0.Sym].Alive {
			if badReason {
				// two things are wrong; which one is reported is not specified
				return metaErr(req, "wamp.error.no_such_session") + "|" + metaErr(req, "wamp.error.invalid_uri"), nil, nil
			}
			return metaErr(req, "wamp.error.no_such_session"), nil, nil
		}
		if badReason {
			return metaErr(req, "wamp.error.invalid_uri"), nil, nil
		}
		return res("ok"), plain(func(b *Binder, r *wamp.Result) string { return "ok" }), &metaEffect{Kill: []int{r0.Sym}, Reason: reason}
	case "wamp.session.kill_by_authid", "wamp.session.kill_by_authrole", "wamp.session.kill_all":
		if !metaKill {
			return metaErr(req, "wamp.error.no_such_procedure"), nil, nil
		}
		key := "authid"
		if proc == "wamp.session.kill_by_authrole" {
			key = "authrole"
		}
		var val string
		if proc != "wamp.session.kill_all" {
			if len(args) == 0 {
				return metaErr(req, "wamp.error.no_such_session"), nil, nil
			}
			v, ok := wamp.AsString(args[0])
			if !ok {
				return metaErr(req, "wamp.error.no_such_session"), nil, nil
			}
			val = v
		}
		reason, _ := wamp.AsString(kw["reason"])
		if reason != "" && !MValidURI(reason, false, "exact") {
			return metaErr(req, "wamp.error.invalid_uri"), nil, nil
		}
		var kill []int
		for _, x := range m.liveSess() {
			if x.Idx == s {
				continue
			}
			if proc == "wamp.session.kill_all" || x.Details[key] == val {
				kill = append(kill, x.Idx)
			}
		}
		return res(fmt.Sprintf("count:%d", len(kill))), plain(func(b *Binder, r *wamp.Result) string {
			n, _ := wamp.AsInt64(arg0(r))
			return fmt.Sprintf("count:%d", n)
		}), &metaEffect{Kill: kill, Reason: reason, All: proc == "wamp.session.kill_all"}

	case "wamp.registration.list", "wamp.subscription.list":
		class := "R"
		by := map[string][]string{"exact": nil, "prefix": nil, "wildcard": nil}
		if proc == "wamp.registration.list" {
			for _, r := range m.Regs {
				if !r.Deleted {
					by[r.Match] = append(by[r.Match], symR(r.Sym))
				}
			}
		} else {
			class = "S"
			for _, x := range m.Subs {
				if !x.Deleted {
					by[x.Match] = append(by[x.Match], symS(x.Sym))
				}
			}
		}
		want := fmt.Sprintf("list:exact=%s,prefix=%s,wildcard=%s", sortedJoin(by["exact"]), sortedJoin(by["prefix"]), sortedJoin(by["wildcard"]))
		return res(want), plain(func(b *Binder, r *wamp.Result) string {
			d, _ := wamp.AsDict(arg0(r))
			return fmt.Sprintf("list:exact=%s,prefix=%s,wildcard=%s", idsText(class, b, d["exact"]), idsText(class, b, d["prefix"]), idsText(class, b, d["wildcard"]))
		}), nil
	case "wamp.registration.lookup", "wamp.subscription.lookup":
		uri, ok := "", false
		if len(args) > 0 {
			uri, ok = wamp.AsString(args[0])
		}
		match := "exact"
		if len(args) > 1 {
			if o, ok := wamp.AsDict(args[1]); ok {
				match = normMatch(o, "match")
			}
		}
		want := "id:none"
		class := "R"
		if proc == "wamp.registration.lookup" {
			if r := m.findReg(uri, match); ok && r != nil {
				want = "id:" + symR(r.Sym)
			}
		} else {
			class = "S"
			if x := m.findSub(uri, match); ok && x != nil {
				want = "id:" + symS(x.Sym)
			}
		}
		return res(want), plain(func(b *Binder, r *wamp.Result) string {
			v := arg0(r)
			n, isNum := wamp.AsInt64(v)
			if v == nil || (isNum && n == 0) {
				return "id:none"
			}
			return "id:" + idText(class, b, wamp.ID(n))
		}), nil
	case "wamp.registration.match":
		uri := ""
		if len(args) > 0 {
			uri, _ = wamp.AsString(args[0])
		}
		regs := m.MatchProc(uri)
		var alts []string
		for _, r := range regs {
			alts = append(alts, "id:"+symR(r.Sym))
		}
		want := res("id:none")
		if len(alts) > 0 {
			var ws []string
			for _, a := range alts {
				ws = append(ws, res(a))
			}
			want = strings.Join(ws, "|")
		}
		return want, func(b *Binder, r *wamp.Result) string {
			v := arg0(r)
			n, isNum := wamp.AsInt64(v)
			got := "id:none"
			if v != nil && !(isNum && n == 0) {
				got = "id:" + idText("R", b, wamp.ID(n))
			}
			return fmt.Sprintf("META(%d,%s)", req, got)
		}, nil
	case "wamp.subscription.match":
		uri := ""
		if len(args) > 0 {
			uri, _ = wamp.AsString(args[0])
		}
		var ids []string
		for _, x := range m.Subs {
			if !x.Deleted && MMatches(uri, x.Topic, x.Match) {
				ids = append(ids, symS(x.Sym))
			}
		}
		return res("ids:" + sortedJoin(ids)), plain(func(b *Binder, r *wamp.Result) string { return "ids:" + idsText("S", b, arg0(r)) }), nil
	case "wamp.registration.get":
		r0, ok := ref(0, "R")
		reg := m.regBySym(r0.Sym)
		if !ok || reg == nil {
			return metaErr(req, "wamp.error.no_such_registration"), nil, nil
		}
		return res(fmt.Sprintf("reg:%s:%q:%s:%q", symR(reg.Sym), reg.Proc, reg.Match, reg.Invoke)), plain(func(b *Binder, r *wamp.Result) string {
			d, _ := wamp.AsDict(arg0(r))
			id, _ := wamp.AsID(d["id"])
			u, _ := wamp.AsString(d["uri"])
			mt, _ := wamp.AsString(d["match"])
			if mt != "prefix" && mt != "wildcard" {
				mt = "exact"
			}
			iv, _ := wamp.AsString(d["invoke"])
			return fmt.Sprintf("reg:%s:%q:%s:%q", idText("R", b, id), u, mt, iv)
		}), nil
	case "wamp.subscription.get":
		r0, ok := ref(0, "S")
		sub := m.subBySym(r0.Sym)
		if !ok || sub == nil {
			return metaErr(req, "wamp.error.no_such_subscription"), nil, nil
		}
		return res(fmt.Sprintf("sub:%s:%q:%s", symS(sub.Sym), sub.Topic, sub.Match)), plain(func(b *Binder, r *wamp.Result) string {
			d, _ := wamp.AsDict(arg0(r))
			id, _ := wamp.AsID(d["id"])
			u, _ := wamp.AsString(d["uri"])
			mt, _ := wamp.AsString(d["match"])
			if mt != "prefix" && mt != "wildcard" {
				mt = "exact"
			}
			return fmt.Sprintf("sub:%s:%q:%s", idText("S", b, id), u, mt)
		}), nil
	case "wamp.registration.list_callees", "wamp.registration.count_callees":
		r0, ok := ref(0, "R")
		reg := m.regBySym(r0.Sym)
		if !ok || reg == nil {
			return metaErr(req, "wamp.error.no_such_registration"), nil, nil
		}
		var ids []string
		for _, c := range reg.Callees {
			ids = append(ids, fmt.Sprint(m.Sess[c].ID))
		}
		if proc == "wamp.registration.count_callees" {
			return res(fmt.Sprintf("count:%d", len(ids))), plain(func(b *Binder, r *wamp.Result) string {
				n, _ := wamp.AsInt64(arg0(r))
				return fmt.Sprintf("count:%d", n)
			}), nil
		}
		return res("sessions:" + sortedJoin(ids)), plain(func(b *Binder, r *wamp.Result) string { return "sessions:" + idsText("sess", b, arg0(r)) }), nil
	case "wamp.subscription.list_subscribers", "wamp.subscription.count_subscribers":
		r0, ok := ref(0, "S")
		sub := m.subBySym(r0.Sym)
		if !ok || sub == nil {
			return metaErr(req, "wamp.error.no_such_subscription"), nil, nil
		}
		var ids []string
		for _, c := range sub.Subs {
			ids = append(ids, fmt.Sprint(m.Sess[c].ID))
		}
		if proc == "wamp.subscription.count_subscribers" {
			return res(fmt.Sprintf("count:%d", len(ids))), plain(func(b *Binder, r *wamp.Result) string {
				n, _ := wamp.AsInt64(arg0(r))
				return fmt.Sprintf("count:%d", n)
			}), nil
		}
		return res("sessions:" + sortedJoin(ids)), plain(func(b *Binder, r *wamp.Result) string { return "sessions:" + idsText("sess", b, arg0(r)) }), nil
	case "wamp.subscription.get_events":
		r0, ok := ref(0, "S")
		sub := m.subBySym(r0.Sym)
		if !ok || sub == nil || sub.Hist == nil {
			// unknown subscription or one without history: an empty answer or an error are both acceptable
			return res("events:[]") + "|" + metaErr(req, "wamp.error.no_such_subscription") + "|" + metaErr(req, "wamp.error.invalid_argument"), histRender(req), nil
		}
		f, bad := parseHistFilter(kw, refs)
		if bad {
			return metaErr(req, "wamp.error.invalid_argument"), nil, nil
		}
		var sel []mHistEntry
		started := f.fromPub == 0
		for _, e := range sub.Hist.Entries {
			if f.fromPub != 0 && e.PubSym == f.fromPub {
				started = true
			}
			if !started {
				continue
			}
			sel = append(sel, e)
		}
		if f.afterPub != 0 {
			var t []mHistEntry
			seen := false
			for _, e := range sel {
				if seen {
					t = append(t, e)
				}
				if e.PubSym == f.afterPub {
					seen = true
				}
			}
			sel = t
		}
		if f.beforePub != 0 {
			for i, e := range sel {
				if e.PubSym == f.beforePub {
					sel = sel[:i]
					break
				}
			}
		}
		if f.untilPub != 0 {
			for i, e := range sel {
				if e.PubSym == f.untilPub {
					sel = sel[:i+1]
					break
				}
			}
		}
		var t []mHistEntry
		for _, e := range sel {
			if f.hasFrom && e.T < f.from {
				continue
			}
			if f.hasAfter && e.T <= f.after {
				continue
			}
			if f.hasBefore && e.T >= f.before {
				continue
			}
			if f.hasUntil && e.T > f.until {
				continue
			}
			if f.topic != "" && e.Topic != f.topic {
				continue
			}
			t = append(t, e)
		}
		sel = t
		if f.limit > 0 && len(sel) > f.limit {
			sel = sel[len(sel)-f.limit:] // the most recent ones
		}
		if f.reverse {
			for i, j := 0, len(sel)-1; i < j; i, j = i+1, j-1 {
				sel[i], sel[j] = sel[j], sel[i]
			}
		}
		var parts []string
		for _, e := range sel {
			parts = append(parts, fmt.Sprintf("%s:%s:%s", symP(e.PubSym), e.Topic, payload(e.Args, e.Kw)))
		}
		return res("events:[" + strings.Join(parts, " ") + "]"), histRender(req), nil
	case "wamp.session.modify_details":
		// changes a session's attributes: from then on filters, role filters, kills by
		// attribute, disclosure and wamp.session.get go by the new values
		if !m.MetaModify {
			return metaErr(req, "wamp.error.no_such_procedure"), nil, nil
		}
		if len(args) < 2 {
			return metaErr(req, "wamp.error.invalid_argument"), nil, nil
		}
		delta, okd := wamp.AsDict(args[1])
		_, isID := wamp.AsID(args[0])
		_, hasSess := delta["session"]
		badArg := !okd || !isID || hasSess
		r0, ok := ref(0, "sess")
		noSess := !ok || r0.Sym < 0 || m.Sess[r0.Sym] == nil || !m.Sess[r0.Sym].Alive
		switch {
		case badArg && noSess && isID:
			return metaErr(req, "wamp.error.invalid_argument") + "|" + metaErr(req, "wamp.error.no_such_session"), nil, nil
		case badArg:
			return metaErr(req, "wamp.error.invalid_argument"), nil, nil
		case noSess:
			return metaErr(req, "wamp.error.no_such_session"), nil, nil
		}
		x := m.Sess[r0.Sym]
		for k, v := range delta {
			if v == nil {
				delete(x.Details, k)
				continue
			}
			if sv, ok := wamp.AsString(v); ok {
				x.Details[k] = sv
			}
		}
		return res("ok"), plain(func(b *Binder, r *wamp.Result) string { return "ok" }), nil
	case "wamp.session.add_testament":
		if len(args) < 3 {
			return metaErr(req, "wamp.error.invalid_argument"), nil, nil
		}
		topic, ok1 := wamp.AsString(args[0])
		targs, ok2 := wamp.AsList(args[1])
		tkw, ok3 := wamp.AsDict(args[2])
		if !ok1 || !ok2 || !ok3 {
			return metaErr(req, "wamp.error.invalid_argument"), nil, nil
		}
		scope, _ := wamp.AsString(kw["scope"])
		if scope == "" {
			scope = "destroyed"
		}
		if scope != "destroyed" && scope != "detached" {
			return metaErr(req, "wamp.error.invalid_argument"), nil, nil
		}
		opts, _ := wamp.AsDict(kw["publish_options"])
		m.Sess[s].Testam = append(m.Sess[s].Testam, mTestament{Topic: topic, Args: targs, Kw: tkw, Opts: opts, Scope: scope})
		return res("ok"), plain(func(b *Binder, r *wamp.Result) string { return "ok" }), nil
	case "wamp.session.flush_testaments":
		scope, _ := wamp.AsString(kw["scope"])
		if scope == "" {
			scope = "destroyed"
		}
		if scope != "destroyed" && scope != "detached" {
			return metaErr(req, "wamp.error.invalid_argument"), nil, nil
		}
		var keep []mTestament
		for _, t := range m.Sess[s].Testam {
			if t.Scope != scope {
				keep = append(keep, t)
			}
		}
		m.Sess[s].Testam = keep
		return res("ok"), plain(func(b *Binder, r *wamp.Result) string { return "ok" }), nil
	}
	return metaErr(req, "wamp.error.no_such_procedure"), nil, nil
}

type histFilter struct {
	limit                                  int
	reverse                                bool
	from, after, before, until             int64
	hasFrom, hasAfter, hasBefore, hasUntil bool
	topic                                  string
	fromPub, afterPub, beforePub, untilPub int
}

// HistEpoch is the virtual-clock origin in Unix ms (set by the harness).
var HistEpoch int64

func parseHistFilter(kw wamp.Dict, refs map[int]MetaRef) (f histFilter, bad bool) {
	if v, ok := kw["limit"]; ok {
		n, isNum := wamp.AsInt64(v)
		if !isNum || n < 1 {
			return f, true
		}
		f.limit = int(n)
	}
	if v, ok := kw["reverse"]; ok {
		b, isB := v.(bool)
		if !isB {
			return f, true
		}
		f.reverse = b
	}
	tm := func(key string) (int64, bool, bool) {
		v, ok := kw[key]
		if !ok {
			return 0, false, false
		}
		str, isS := v.(string)
		if !isS {
			return 0, false, false // not a string: ignored
		}
		t, err := time.Parse(time.RFC3339, str)
		if err != nil {
			return 0, false, true
		}
		return t.UnixMilli() - HistEpoch, true, false
	}
	var b1, b2, b3, b4 bool
	f.from, f.hasFrom, b1 = tm("from_time")
	f.after, f.hasAfter, b2 = tm("after_time")
	f.before, f.hasBefore, b3 = tm("before_time")
	f.until, f.hasUntil, b4 = tm("until_time")
	if b1 || b2 || b3 || b4 {
		return f, true
	}
	if s, ok := kw["topic"].(string); ok {
		f.topic = s
	}
	// publication bounds are passed in model terms through refs 100..103
	if r, ok := refs[100]; ok {
		f.fromPub = r.Sym
	}
	if r, ok := refs[101]; ok {
		f.afterPub = r.Sym
	}
	if r, ok := refs[102]; ok {
		f.beforePub = r.Sym
	}
	if r, ok := refs[103]; ok {
		f.untilPub = r.Sym
	}
	return f, false
}

// histItem takes one element of a get_events answer apart: local clients get
// the router's own Go values, serialised clients get dicts.
func histItem(a any) (pub wamp.ID, args wamp.List, kw wamp.Dict, topic string) {
	if d, ok := wamp.AsDict(a); ok {
		get := func(keys ...string) any {
			for _, k := range keys {
				if v, ok := d[k]; ok {
					return v
				}
			}
			return nil
		}
		pub, _ = wamp.AsID(get("Publication", "publication"))
		args, _ = wamp.AsList(get("Arguments", "arguments", "args"))
		kw, _ = wamp.AsDict(get("ArgumentsKw", "argumentskw", "kwargs"))
		if det, ok := wamp.AsDict(get("Details", "details")); ok {
			topic, _ = wamp.AsString(det["topic"])
		}
	} else {
		v := reflect.ValueOf(a)
		if v.Kind() == reflect.Struct {
			if f := v.FieldByName("Publication"); f.IsValid() {
				pub = wamp.ID(f.Uint())
			}
			if f := v.FieldByName("Arguments"); f.IsValid() && f.CanInterface() {
				args, _ = f.Interface().(wamp.List)
			}
			if f := v.FieldByName("ArgumentsKw"); f.IsValid() && f.CanInterface() {
				kw, _ = f.Interface().(wamp.Dict)
			}
			if f := v.FieldByName("Details"); f.IsValid() && f.CanInterface() {
				if det, ok := f.Interface().(wamp.Dict); ok {
					topic, _ = wamp.AsString(det["topic"])
				}
			}
		}
	}
	return
}

// histRender renders the events of a get_events RESULT: local clients get the
// router's own Go values, serialised clients get dicts.
func histRender(req wamp.ID) MetaRender {
	return func(b *Binder, r *wamp.Result) string {
		var parts []string
		for _, a := range r.Arguments {
			pub, args, kw, topic := histItem(a)
			p := fmt.Sprintf("P?%d", pub)
			if s, ok := b.pub[pub]; ok {
				p = symP(s)
				if topic == "" {
					topic = b.pubTopic[s] // an exact subscription's events need not repeat the topic
				}
			}
			parts = append(parts, fmt.Sprintf("%s:%s:%s", p, topic, payload(args, kw)))
		}
		return fmt.Sprintf("META(%d,events:[%s])", req, strings.Join(parts, " "))
	}
}
