package vsim

import (
	"fmt"
	"strings"

	"github.com/gammazero/nexus/v3/wamp"
)

// ---- C02: reply monitor ---------------------------------------------------

type replyState struct {
	prog     int
	finals   int
	first    string
	firstSeq int // scheduling step at which the first final reply arrived
}

// CheckReplies runs the at-most-one-final-reply automaton over every
// client's stream. Returns per-client, per-request state for the liveness
// obligations.
func CheckReplies(c *Ctx, clients []*TClient) map[*TClient]map[wamp.ID]*replyState {
	out := map[*TClient]map[wamp.ID]*replyState{}
	for _, cl := range clients {
		st := map[wamp.ID]*replyState{}
		out[cl] = st
		issued := map[wamp.ID]*CallRec{}
		for _, cr := range cl.Calls {
			issued[cr.Req] = cr
		}
		// requests that were sent at all (also those the router never took)
		chunkSeq := map[wamp.ID][]int{} // request -> steps at which its CALL chunks were handed over
		for _, o := range cl.Out {
			if call, ok := o.Msg.(*wamp.Call); ok {
				if _, ok := issued[call.Request]; !ok {
					issued[call.Request] = &CallRec{Req: call.Request}
				}
				chunkSeq[call.Request] = append(chunkSeq[call.Request], o.Seq)
			}
		}
		for _, r := range cl.Inbox {
			var req wamp.ID
			final := false
			switch x := r.Msg.(type) {
			case *wamp.Result:
				req = x.Request
				if p, _ := x.Details["progress"].(bool); !p {
					final = true
				}
			case *wamp.Error:
				if x.Type != wamp.CALL {
					continue
				}
				req = x.Request
				final = true
			default:
				continue
			}
			if _, ok := issued[req]; !ok {
				c.Violf("caller %s received %s for request id %d which it never issued", cl.Name, r.Msg.MessageType(), req)
				continue
			}
			s := st[req]
			if s == nil {
				s = &replyState{}
				st[req] = s
			}
			// A progressive call invocation: a further CALL chunk under the same
			// request id that the caller handed over before it could have seen
			// the final reply to the earlier chunks is, for the router, a call
			// of its own once the first one has ended, and is answered as such.
			// (the step at which the client decided to send the chunk - the hand-over itself may
			// complete only after the final reply has arrived meanwhile)
			decided := chunkSeq[req]
			if d := cl.ChunkAt[req]; len(d) > 0 {
				decided = d
			}
			allowed := 0
			for _, q := range decided {
				if s.finals == 0 || q < s.firstSeq {
					allowed++
				}
			}
			if c.W != nil && LossyTo(c, c.W, cl.Sess) {
				// a caller that may have lost the final reply to an earlier chunk cannot
				// know that its call has ended: every chunk it sent may be answered on its own
				allowed = len(chunkSeq[req])
			}
			if allowed < 1 {
				allowed = 1
			}
			if s.finals > 0 && s.finals >= allowed {
				c.Violf("caller %s received %s for request %d after the final reply %s", cl.Name, Brief(r.Msg), req, s.first)
				c.Probe("reply_after_final")
			}
			if final {
				s.finals++
				if s.first == "" {
					s.first = Brief(r.Msg)
					s.firstSeq = r.Seq
				}
			} else {
				s.prog++
			}
		}
	}
	return out
}

// ---- C08: ordering monitors -----------------------------------------------

func argInt(l wamp.List, i int) (int, bool) {
	if len(l) <= i {
		return 0, false
	}
	n, ok := wamp.AsInt64(l[i])
	return int(n), ok
}

// CheckOrdering verifies the per-peer ordering guarantees on what each
// client received.
func CheckOrdering(c *Ctx, clients []*TClient) { CheckOrderingLossy(c, clients, nil) }

// CheckOrderingLossy: the same, but for clients in lossy (sessions that
// stopped reading for a while and may have lost any message, acknowledgements
// included) only the relative order of what did arrive is checked: a slow
// reader sees gaps, never a reordering.
func CheckOrderingLossy(c *Ctx, clients []*TClient, lossy map[*TClient]bool) {
	for _, cl := range clients {
		strict := !lossy[cl]
		// Subscription / registration activity as seen by this client.
		unsubReq := map[wamp.ID]wamp.ID{}
		unregReq := map[wamp.ID]wamp.ID{}
		for _, o := range cl.Out {
			switch x := o.Msg.(type) {
			case *wamp.Unsubscribe:
				unsubReq[x.Request] = x.Subscription
			case *wamp.Unregister:
				unregReq[x.Request] = x.Registration
			}
		}
		subActive := map[wamp.ID]bool{}
		regActive := map[wamp.ID]bool{}
		lastPub := map[string]int{}   // sub id + publisher tag -> last seq
		lastCall := map[string]int{}  // caller name -> last call number seen here
		seenInv := map[wamp.ID]bool{} // invocation ids already started
		lastProg := map[wamp.ID]int{} // call request -> last progressive index
		finalSeen := map[wamp.ID]bool{}
		for _, r := range cl.Inbox {
			switch x := r.Msg.(type) {
			case *wamp.Subscribed:
				subActive[x.Subscription] = true
			case *wamp.Unsubscribed:
				if id, ok := unsubReq[x.Request]; ok {
					subActive[id] = false
				}
			case *wamp.Registered:
				regActive[x.Registration] = true
			case *wamp.Unregistered:
				if id, ok := unregReq[x.Request]; ok {
					regActive[id] = false
				}
			case *wamp.Event:
				if strict && !subActive[x.Subscription] {
					c.Violf("%s received EVENT for subscription %d outside SUBSCRIBED..UNSUBSCRIBED: %s", cl.Name, x.Subscription, Brief(x))
				}
				tag := tagOf(x.Arguments)
				if strings.HasPrefix(tag, "p:") {
					if n, ok := argInt(x.Arguments, 1); ok {
						k := fmt.Sprintf("%d|%s", x.Subscription, tag)
						if last, seen := lastPub[k]; seen && n <= last {
							c.Violf("%s: events of %s on subscription %d out of publication order: %d after %d", cl.Name, tag, x.Subscription, n, last)
						}
						lastPub[k] = n
						c.Probe("ordered_event_checked")
					}
				}
			case *wamp.Invocation:
				if !seenInv[x.Request] {
					seenInv[x.Request] = true
					if strict && !regActive[x.Registration] {
						c.Violf("%s received a new INVOCATION for registration %d outside REGISTERED..UNREGISTERED", cl.Name, x.Registration)
					}
					tag := tagOf(x.Arguments) // c:<caller>:<n>
					parts := strings.Split(tag, ":")
					if len(parts) == 3 && parts[0] == "c" {
						var n int
						fmt.Sscanf(parts[2], "%d", &n)
						// a caller that lost the final reply of a progressive call
						// goes on sending chunks under a request id the dealer has
						// finished with: the same call number may then start twice
						callerLossy := false
						for _, o := range clients {
							if o.Name == parts[1] && lossy[o] {
								callerLossy = true
							}
							if o.Name == parts[1] {
								// likewise when a progressive call invocation ended (time-out, callee gone, ...)
								// while its caller had already decided to send the next chunk
								for _, cr := range o.Calls {
									if cr.Tag == tag && len(o.ChunkAt[cr.Req]) > 1 {
										callerLossy = true
									}
								}
							}
						}
						if last, seen := lastCall[parts[1]]; seen && (n < last || (n == last && !callerLossy)) {
							c.Violf("%s: calls of caller %s arrived out of call order: call %d after call %d", cl.Name, parts[1], n, last)
						}
						lastCall[parts[1]] = n
						c.Probe("ordered_invocation_checked")
					}
				}
			case *wamp.Result:
				if p, _ := x.Details["progress"].(bool); p {
					// (not for a progressive call invocation: a chunk handed over before its caller could
					// see that the call had ended is a call of its own for the router, answered as such)
					if strict && finalSeen[x.Request] && len(cl.ChunkAt[x.Request]) < 2 {
						c.Violf("%s: progressive RESULT for request %d after its final reply", cl.Name, x.Request)
					}
					if n, ok := argInt(x.Arguments, 1); ok {
						if last, seen := lastProg[x.Request]; seen && n <= last {
							c.Violf("%s: progressive results of request %d out of yield order: %d after %d", cl.Name, x.Request, n, last)
						}
						lastProg[x.Request] = n
						c.Probe("ordered_progress_checked")
					}
				} else {
					finalSeen[x.Request] = true
				}
			case *wamp.Error:
				if x.Type == wamp.CALL {
					finalSeen[x.Request] = true
				}
			}
		}
	}
}

// DroppedTo reports how many messages the router dropped to the given
// session because its queue was full (from the router's own log).
func DroppedTo(w *World, id wamp.ID) int {
	return w.Log.drops[fmt.Sprintf("%d", id)]
}


// sessAnnounced: did the session announce feature feat for role in its HELLO?
func sessAnnounced(s *Sess, role, feat string) bool {
	var roles wamp.Dict
	if s.Hello != nil && s.Hello["roles"] != nil {
		roles, _ = wamp.AsDict(s.Hello["roles"])
	} else {
		roles = AllFeatures()
	}
	rd, _ := wamp.AsDict(roles[role])
	fd, _ := wamp.AsDict(rd["features"])
	b, _ := fd[feat].(bool)
	return b
}

// CheckDisclosure (C12 under concurrency and faults): a caller's or publisher's identity
// appears in an INVOCATION or EVENT only if it was asked for - by the originator
// (disclose_me: then the realm must allow it and the recipient must have announced the
// identification feature) or by the registration (disclose_caller) - whatever else happens
// to the call on its way (a full queue, a fail-over, a retry). A publication refused for
// disclose_me must not be delivered at all.
func CheckDisclosure(c *Ctx, clients []*TClient, allowDisclose bool) {
	calls := map[string]*CallRec{}
	pubDiscl := map[string]bool{}
	var procDiscl [][2]string // (procedure, match) of every REGISTER sent with disclose_caller
	for _, cl := range clients {
		for _, cr := range cl.Calls {
			calls[cr.Tag] = cr
		}
		for k := range cl.pubDiscl {
			pubDiscl[k] = true
		}
		// (by what was sent, not by what was acknowledged: a REGISTERED may be lost to a slow reader)
		for _, o := range cl.Out {
			if rg, ok := o.Msg.(*wamp.Register); ok {
				if d, _ := rg.Options["disclose_caller"].(bool); d {
					m, _ := wamp.AsString(rg.Options["match"])
					procDiscl = append(procDiscl, [2]string{string(rg.Procedure), m})
				}
			}
		}
	}
	asksDisclosure := func(proc string) bool {
		for _, pd := range procDiscl {
			if MMatches(proc, pd[0], normMatchStr(pd[1])) {
				return true
			}
		}
		return false
	}
	for _, cl := range clients {
		for _, r := range cl.Inbox {
			switch x := r.Msg.(type) {
			case *wamp.Invocation:
				_, has := x.Details["caller"]
				if !has {
					continue
				}
				c.Probe("disclosed_invocation_checked")
				cr := calls[tagOf(x.Arguments)]
				byCaller := cr != nil && cr.Disclose && allowDisclose && sessAnnounced(cl.Sess, "callee", "caller_identification")
				byReg := cr != nil && asksDisclosure(string(cr.Proc))
				if cr == nil {
					continue // not a call of this workload (a meta procedure's own traffic)
				}
				if !byReg && !byCaller {
					c.Violf("%s received the caller's identity in %s although neither a registration of that procedure asked for it (disclose_caller; registration %d) nor did the caller ask (disclose_me), the realm allow it and this callee announce caller_identification", cl.Name, Brief(x), x.Registration)
				}
			case *wamp.Event:
				tag := tagOf(x.Arguments)
				n, _ := argInt(x.Arguments, 1)
				asked := pubDiscl[fmt.Sprintf("%s#%d", tag, n)]
				if asked && !allowDisclose && strings.HasPrefix(tag, "p:") {
					c.Violf("%s received %s: a publication with disclose_me in a realm that does not allow disclosure is refused, not delivered", cl.Name, Brief(x))
				}
				if _, has := x.Details["publisher"]; has {
					c.Probe("disclosed_event_checked")
					if !(asked && allowDisclose && sessAnnounced(cl.Sess, "subscriber", "publisher_identification")) {
						c.Violf("%s received the publisher's identity in %s although the publisher did not ask for disclosure, or the realm does not allow it, or this subscriber did not announce publisher_identification", cl.Name, Brief(x))
					}
				}
			}
		}
	}
}


func normMatchStr(m string) string {
	if m == "prefix" || m == "wildcard" {
		return m
	}
	return "exact"
}
