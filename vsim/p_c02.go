package vsim

import (
	"fmt"
	"time"

	"github.com/gammazero/nexus/v3/router"
	"github.com/gammazero/nexus/v3/simrt"
	"github.com/gammazero/nexus/v3/wamp"
)

func init() {
	Register(&PropDef{ID: "C02", Run: runC02, Drops: true})
	Register(&PropDef{ID: "C08", Run: runC08})
}

// runC02: concurrent RPC workload with cancels (all modes), router-side
// time-outs, callee misbehaviour (duplicate, foreign, missing, slow answers),
// unregistration during calls, departures and kills. Oracle: the reply
// automaton on every caller's stream, and - after faults stop and the clock
// has been advanced past every timer - one final reply for every call whose
// trigger condition the harness itself observed.
func runC02(c *Ctx) {
	g := c.Gen
	rc := &router.RealmConfig{URI: "r1", AnonymousAuth: true, AllowDisclose: true, EnableMetaKill: true}
	w, err := NewWorld(c.S, &router.Config{RealmConfigs: []*router.RealmConfig{rc}})
	if err != nil {
		c.Res.Tooling = "NewRouter: " + err.Error()
		return
	}
	c.W = w
	mirror := StartMirror(c, w, "r1")
	ns := g.Range(2, 5)
	tc := TrafficCfg{NSess: ns, OpsPerSess: g.Range(4, 12), Faults: g.Chance(2, 3), Timeouts: true, Cancels: true, Meta: g.Chance(1, 3), Kills: g.Chance(1, 5)}
	ops := GenTraffic(g, tc)
	// RPC-heavy: turn most pub/sub ops into calls
	for i := range ops {
		if ops[i].Kind == tPub && g.Chance(2, 3) {
			ops[i].Kind = tCall
			ops[i].URI = wamp.URI(fmt.Sprintf("p.s%d", g.Intn(ns)))
			if g.Chance(1, 6) {
				ops[i].URI = "p.none"
			}
			ops[i].Opts = wamp.Dict{}
			if g.Bool() {
				ops[i].Opts["receive_progress"] = true
			}
			if g.Chance(1, 3) {
				ops[i].Opts["timeout"] = []int{1, 5, 100, 1000, 30000}[g.Intn(5)]
			}
		}
		if ops[i].Kind == tStall && g.Bool() {
			ops[i].Kind = tSleep
			ops[i].D = time.Duration(g.Range(1, 3000)) * time.Millisecond
		}
	}
	// In a quarter of the runs a scripted epilogue at fixed virtual times: a
	// callee with a tiny queue takes an invocation, stops reading, has its
	// queue filled with events, and the caller then cancels (any mode).
	blockedCallee := -1
	if g.Chance(1, 4) {
		x := g.Intn(ns)
		y := (x + 1 + g.Intn(ns-1)) % ns
		blockedCallee = x
		t0 := time.Duration(g.Range(20, 60)) * time.Second
		at := func(s int, d time.Duration) TOp { return TOp{Sess: s, Kind: tSleep, Until: t0 + d} }
		ops = append(ops,
			at(x, 0), TOp{Sess: x, Kind: tResume}, TOp{Sess: x, Kind: tSub, URI: "t.fill", WaitAck: true}, TOp{Sess: x, Kind: tReg, URI: "p.blocked", WaitAck: true},
			at(y, time.Second), TOp{Sess: y, Kind: tResume}, TOp{Sess: y, Kind: tCall, URI: "p.blocked", Opts: wamp.Dict{}},
			at(x, 2*time.Second), TOp{Sess: x, Kind: tStall},
			at(y, 3*time.Second))
		for i := g.Range(0, 5); i > 0; i-- {
			ops = append(ops, TOp{Sess: y, Kind: tPub, URI: "t.fill", Opts: wamp.Dict{}})
		}
		ops = append(ops, TOp{Sess: y, Kind: tCancel, Mode: g.Pick("kill", "kill", "killnowait", "skip", "")})
	}
	// In another quarter a scripted epilogue for the caller's side: a caller with a tiny queue
	// stops reading, has its queue filled with events, calls (with a router-side time-out) an
	// echoing callee - whose RESULT then cannot be queued and is held back - and reads again a
	// few seconds later, possibly after the time-out value has passed: the callee answered in
	// time, so the RESULT is what the caller must find (the obligation below demands it).
	blockedCaller, echoCallee := -1, -1
	if blockedCallee < 0 && g.Chance(1, 3) {
		x := g.Intn(ns)
		y := (x + 1 + g.Intn(ns-1)) % ns
		blockedCaller, echoCallee = y, x
		t0 := time.Duration(g.Range(20, 60)) * time.Second
		at := func(s int, d time.Duration) TOp { return TOp{Sess: s, Kind: tSleep, Until: t0 + d} }
		ops = append(ops,
			at(x, 0), TOp{Sess: x, Kind: tResume}, TOp{Sess: x, Kind: tReg, URI: "p.echo", WaitAck: true},
			at(y, 0), TOp{Sess: y, Kind: tResume}, TOp{Sess: y, Kind: tSub, URI: "t.fill2", WaitAck: true},
			at(y, time.Second), TOp{Sess: y, Kind: tStall},
			at(x, 2*time.Second))
		for i := 0; i < 5; i++ {
			ops = append(ops, TOp{Sess: x, Kind: tPub, URI: "t.fill2", Opts: wamp.Dict{}})
		}
		ops = append(ops, at(y, 3*time.Second), TOp{Sess: y, Kind: tCall, URI: "p.echo", Opts: wamp.Dict{"timeout": []int{1000, 4000, 100000}[g.Intn(3)]}},
			at(y, 3*time.Second+time.Duration([]int{2, 6, 20}[g.Intn(3)])*time.Second), TOp{Sess: y, Kind: tResume})
	}
	c.Res.NOps = len(ops)
	c.Res.Sample = opsSample(ops, c, 0, 30)
	c.Res.Shape = fmt.Sprintf("%x", hashStr(c.Res.Sample)^c.Spec.SchedSeed)
	var clients []*TClient
	behs := []int{BehEcho, BehEcho, BehError, BehIgnore, BehProgress, BehProgress, BehSlow, BehTwice, BehForeign}
	for i := 0; i < ns; i++ {
		hello := wamp.Dict{"roles": AllFeatures()}
		if g.Chance(1, 4) {
			// a callee that cannot be interrupted and has no progressive results
			hello = wamp.Dict{"roles": wamp.Dict{"caller": wamp.Dict{"features": wamp.Dict{"call_canceling": true, "progressive_call_results": true}}, "callee": wamp.Dict{}, "publisher": wamp.Dict{}, "subscriber": wamp.Dict{}}}
		}
		// small queues make "the caller cannot take the RESULT right now" reachable
		qsize := []int{64, 64, 8, 2}[g.Intn(4)]
		if i == blockedCallee || i == blockedCaller {
			qsize = g.Range(1, 3)
		}
		s := NewAnySess(c, w, g, fmt.Sprintf("s%d", i), "r1", qsize, hello)
		cl := NewTClient(s, behs[g.Intn(len(behs))], time.Duration([]int{1, 50, 2000, 40000}[g.Intn(4)])*time.Millisecond)
		if i == blockedCallee {
			cl.Beh = BehIgnore
		}
		if i == echoCallee {
			cl.Beh = BehEcho
		}
		if !s.Join() {
			c.Res.Tooling = "traffic session could not join"
			return
		}
		clients = append(clients, cl)
	}
	RunTraffic(c, clients, ops, 0)
	simrt.WaitQuiescent("traffic-done")
	c.DisarmDrops()
	// faults stop; everybody reads again; advance past every call time-out,
	// slow callee, and the result-retry deadline
	for _, cl := range clients {
		cl.Resume()
	}
	time.Sleep(5 * time.Minute)
	simrt.WaitQuiescent("settled")

	CheckDisclosure(c, clients, rc.AllowDisclose)
	states := CheckReplies(c, clients)
	// liveness obligations
	everStalled := map[*TClient]bool{}
	for i, op := range ops {
		if op.Kind == tStall && c.Kept(i) {
			everStalled[clients[op.Sess]] = true
		}
	}
	interesting := 0
	for _, cl := range clients {
		if cl.Left || cl.CliClosed || cl.RecvClosed || everStalled[cl] || LossyTo(c, w, cl.Sess) {
			continue // not "a caller that stays attached and keeps reading"
		}
		for _, cr := range cl.Calls {
			if cr.Tag == "meta" {
				continue
			}
			why := ""
			feats := 0
			killOutstanding := false
			// only the first CANCEL counts: a repeated one is inert (C13)
			if len(cr.Cancels) > 0 {
				m := cr.Cancels[0]
				if m == "kill" {
					killOutstanding = true
				} else {
					why = "caller cancelled with mode '" + m + "'"
				}
				feats++
			}
			if cr.Proc == "p.none" {
				why = "no such procedure was ever registered"
			}
			var inv *InvRec
			var callee *TClient
			for _, ce := range clients {
				for _, iv := range ce.Invs {
					if iv.Tag == cr.Tag {
						inv, callee = iv, ce
					}
				}
			}
			if inv != nil {
				if inv.Final {
					why = "callee answered finally"
				}
				if callee.Left || callee.CliClosed || callee.RecvClosed {
					why = "callee session ended"
					feats++
				}
				if cr.Timeout > 0 && !killOutstanding && c.S.Elapsed() > cr.SentT+time.Duration(cr.Timeout)*time.Millisecond {
					why = fmt.Sprintf("router-side timeout of %dms expired", cr.Timeout)
					feats++
				}
				if callee.Beh == BehTwice || callee.Beh == BehForeign {
					feats++
				}
				if killOutstanding && why == "" && !inv.Interrupted && !(callee.Left || callee.CliClosed || callee.RecvClosed) {
					// everybody has been reading again for five minutes: an
					// INTERRUPT that was queued would have arrived. A callee
					// that could not be interrupted makes kill degrade to skip.
					why = "the caller cancelled with mode 'kill' and no INTERRUPT ever reached the callee (kill degrades to skip when the callee cannot be interrupted)"
					c.Probe("obligation_kill_degraded")
				}
			}
			if feats >= 2 {
				interesting++
			}
			if why == "" {
				continue
			}
			c.Probe("obligation")
			st := states[cl][cr.Req]
			if st == nil || st.finals == 0 {
				c.Violf("caller %s never received a final reply for call %s to %s although %s", cl.Name, cr.Tag, cr.Proc, why)
			}
		}
	}
	// A caller that stopped reading for a while: replies sent with a single
	// attempt may be lost to it, but a RESULT is held back and retried for the
	// result-retry period (documented as one minute). So if the callee's final
	// YIELD was taken by the router, and the caller was reading again - for
	// good - within half that period, the RESULT must have reached it.
	for _, cl := range clients {
		if cl.Left || cl.CliClosed || cl.RecvClosed || !everStalled[cl] || len(cl.ResumeAt) == 0 || len(cl.StallAt) > len(cl.ResumeAt) {
			continue
		}
		lastResume := cl.ResumeAt[len(cl.ResumeAt)-1]
		for _, cr := range cl.Calls {
			if cr.Tag == "meta" || len(cr.Cancels) > 0 || cr.Proc == "p.none" {
				continue
			}
			for _, ce := range clients {
				if ce.Left || ce.CliClosed || ce.RecvClosed || ce == cl {
					continue
				}
				for _, iv := range ce.Invs {
					if iv.Tag != cr.Tag || !iv.Final || !iv.ByYield || lastResume > iv.FinalT+30*time.Second {
						continue
					}
					deadline := cr.SentT + time.Duration(cr.Timeout)*time.Millisecond
					// a callee that streams progressive results hands its final YIELD over while an
					// earlier progressive one may still be held back for the caller: the call is not
					// complete for the dealer then, and its time-out may still end it
					streaming := cr.Progress && (ce.Beh == BehProgress || ce.Beh == BehTwice)
					if cr.Timeout > 0 && (iv.FinalT+2*time.Millisecond >= deadline || (streaming && deadline <= lastResume)) {
						continue // the router-side timeout may have ended the call first
					}
					if cr.Timeout > 0 && (ce.NetC != nil || ce.WSC != nil) {
						// over a network transport the YIELD counts as taken when the callee's transport
						// has it; the router's handler for that callee may get to it much later (it may be
						// holding back an earlier YIELD of the same callee), after the time-out
						continue
					}
					c.Probe("obligation_result_retry")
					if st := states[cl][cr.Req]; st == nil || st.finals == 0 {
						c.Violf("caller %s never received the RESULT of call %s to %s: the callee's final YIELD was taken at %v, the caller (stalled before) was reading again from %v on", cl.Name, cr.Tag, cr.Proc, iv.FinalT, lastResume)
					}
				}
			}
		}
	}
	if interesting > 0 {
		c.Res.NonTrivial = true
	}
	mirror.Check(c, w)
	CloseAll(c, w, false)
}

// runC08: concurrent publishers, subscribers, callers and callees; no faults.
// Oracle: per-peer ordering monitors.
func runC08(c *Ctx) {
	g := c.Gen
	rc := &router.RealmConfig{URI: "r1", AnonymousAuth: true, AllowDisclose: true}
	if g.Chance(1, 3) {
		// event history on the topics of the workload: their subscriptions outlive their subscribers
		rc.TopicEventHistoryConfigs = []*router.TopicEventHistoryConfig{{Topic: "t.a", MatchPolicy: "exact", Limit: 3}, {Topic: "t.", MatchPolicy: "prefix", Limit: 5}}
	}
	w, err := NewWorld(c.S, &router.Config{RealmConfigs: []*router.RealmConfig{rc}})
	if err != nil {
		c.Res.Tooling = "NewRouter: " + err.Error()
		return
	}
	c.W = w
	mirror := StartMirror(c, w, "r1")
	ns := g.Range(3, 6)
	// half of the runs have slow readers (stall, sleep, resume; tiny queues):
	// what such a session receives may have gaps, but never a reordering
	slow := g.Bool()
	tc := TrafficCfg{NSess: ns, OpsPerSess: g.Range(8, 24), Stalls: slow}
	ops := GenTraffic(g, tc)
	c.Res.NOps = len(ops)
	c.Res.Sample = opsSample(ops, c, 0, 30)
	c.Res.Shape = fmt.Sprintf("%x", hashStr(c.Res.Sample)^c.Spec.SchedSeed)
	var clients []*TClient
	for i := 0; i < ns; i++ {
		qsize := 64
		if slow && g.Bool() {
			qsize = g.Range(1, 4)
		}
		s := NewAnySess(c, w, g, fmt.Sprintf("s%d", i), "r1", qsize, nil)
		cl := NewTClient(s, []int{BehEcho, BehProgress, BehProgress, BehError}[g.Intn(4)], 0)
		if !s.Join() {
			c.Res.Tooling = "traffic session could not join"
			return
		}
		clients = append(clients, cl)
	}
	RunTraffic(c, clients, ops, 0)
	simrt.WaitQuiescent("traffic-done")
	for _, cl := range clients {
		cl.Resume()
	}
	time.Sleep(2 * time.Minute)
	simrt.WaitQuiescent("settled")
	lossy := map[*TClient]bool{}
	for i, op := range ops {
		if op.Kind == tStall && c.Kept(i) {
			lossy[clients[op.Sess]] = true
			c.Fault("client_stall")
		}
	}
	for _, cl := range clients {
		if LossyTo(c, w, cl.Sess) {
			lossy[cl] = true
		}
	}
	CheckOrderingLossy(c, clients, lossy)
	CheckDisclosure(c, clients, rc.AllowDisclose)
	mirror.Check(c, w)
	if c.S.MultiEnabled > 0 {
		c.Res.NonTrivial = true
	}
	CloseAll(c, w, false)
}
