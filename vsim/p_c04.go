package vsim

import (
	"fmt"
	"strings"
	"time"

	"github.com/gammazero/nexus/v3/router"
	"github.com/gammazero/nexus/v3/router/auth"
	"github.com/gammazero/nexus/v3/simrt"
	"github.com/gammazero/nexus/v3/wamp"
)

func init() {
	Register(&PropDef{ID: "C04", Run: runC04, Drops: true})
}

// c04Patience: C04 claims the router keeps serving, not that it does so
// without delay (that is C07): each probe step may take up to the documented
// one-minute result-retry period plus slack.
const c04Patience = 100 * time.Second

type c04op struct {
	att   int
	kind  int // 0 message, 1 close transport, 2 stall, 3 sleep
	msg   wamp.Message
	sleep time.Duration
}

// runC04: hostile clients (any message, any field type, any session state,
// disconnects at any point, racing each other) against a router that also
// serves well-behaved victims; afterwards an uninvolved fresh session must be
// served at zero virtual latency, and the router must shut down cleanly.
func runC04(c *Ctx) {
	g := c.Gen
	if g.Chance(1, 4) {
		runC04b(c) // byte-level hostile input on rawsocket / websocket
		return
	}
	ks := &KS{Name: "static", Users: map[string]KSUser{"alice": {Secret: "ticket1", Role: "user"}}}
	rc := &router.RealmConfig{
		URI: "r1", AnonymousAuth: true, AllowDisclose: g.Bool(), StrictURI: g.Chance(1, 4),
		EnableMetaKill: g.Bool(), EnableMetaModify: g.Bool(), MetaStrict: g.Chance(1, 4),
		RequireLocalAuth: g.Chance(1, 5), RequireLocalAuthz: g.Chance(1, 5),
		Authenticators: []auth.Authenticator{auth.NewTicketAuthenticator(ks, time.Duration(g.Range(1, 30))*time.Second)},
	}
	if g.Chance(1, 3) {
		rc.TopicEventHistoryConfigs = []*router.TopicEventHistoryConfig{{Topic: "t.x", MatchPolicy: "exact", Limit: 2}, {Topic: "t.", MatchPolicy: "prefix", Limit: 3}}
	}
	cfg := &router.Config{RealmConfigs: []*router.RealmConfig{rc}}
	if g.Chance(1, 3) {
		cfg.RealmConfigs = append(cfg.RealmConfigs, &router.RealmConfig{URI: "r2", AnonymousAuth: true})
	}
	if g.Chance(1, 4) {
		t := *rc
		cfg.RealmTemplate = &t
	}
	w, err := NewWorld(c.S, cfg)
	if err != nil {
		c.Res.Tooling = "NewRouter: " + err.Error()
		return
	}
	c.W = w
	qs := []int{1, 2, 3, 8, 64}

	// well-behaved victims with state the hostile messages can aim at
	nv := g.Range(1, 3)
	var known []wamp.ID
	var victims []*Sess
	for i := 0; i < nv; i++ {
		v := NewAnySess(c, w, g, fmt.Sprintf("v%d", i), "r1", qs[g.Intn(len(qs))], nil)
		beh := g.Intn(4)
		v.OnRecv = CalleeBehaviour(func(inv *wamp.Invocation) int { return beh })
		if !v.Join() {
			c.Res.Tooling = "victim could not join"
			return
		}
		known = append(known, v.ID)
		victims = append(victims, v)
		v.Send(&wamp.Subscribe{Request: v.NextReq(), Options: wamp.Dict{}, Topic: "t.x"})
		v.Send(&wamp.Subscribe{Request: v.NextReq(), Options: wamp.Dict{"match": "prefix"}, Topic: "t."})
		v.Send(&wamp.Subscribe{Request: v.NextReq(), Options: wamp.Dict{"match": "prefix"}, Topic: "wamp."})
		if i == 0 {
			v.Send(&wamp.Register{Request: v.NextReq(), Options: wamp.Dict{}, Procedure: "p.echo"})
			v.Send(&wamp.Register{Request: v.NextReq(), Options: wamp.Dict{"match": "prefix", "disclose_caller": true}, Procedure: "p."})
		}
		v.Send(&wamp.Register{Request: v.NextReq(), Options: wamp.Dict{"invoke": "roundrobin"}, Procedure: "p.slow"})
	}
	simrt.WaitQuiescent("setup")

	// hostile scripts
	na := g.Range(1, 3)
	var ops []c04op
	for a := 0; a < na; a++ {
		k := g.Range(2, 10)
		for i := 0; i < k; i++ {
			switch g.Weighted(30, 2, 1, 2) {
			case 0:
				ops = append(ops, c04op{att: a, kind: 0, msg: HostileMessage(g, known)})
			case 1:
				ops = append(ops, c04op{att: a, kind: 1})
			case 2:
				ops = append(ops, c04op{att: a, kind: 2})
			case 3:
				ops = append(ops, c04op{att: a, kind: 3, sleep: time.Duration(g.Range(1, 7000)) * time.Millisecond})
			}
		}
	}
	if na >= 2 && g.Chance(1, 5) {
		// cooperating clients: the same procedure registered by two sessions
		// under one (possibly unknown) sharing policy, then called
		pol := g.Pick("foo", "bogus", "roundrobin", "random", "first", "last", "")
		var pre []c04op
		for a := 0; a < 2; a++ {
			pre = append(pre, c04op{att: a, kind: 0, msg: &wamp.Register{Request: wamp.ID(100 + a), Options: wamp.Dict{"invoke": pol}, Procedure: "p.coop"}})
		}
		ops = append(pre, ops...)
		ops = append(ops, c04op{att: g.Intn(na), kind: 3, sleep: time.Millisecond}, c04op{att: g.Intn(na), kind: 0, msg: &wamp.Call{Request: 200, Options: wamp.Dict{}, Procedure: "p.coop", Arguments: wamp.List{1}}})
	}
	c.Res.NOps = len(ops)
	type attCfg struct {
		join   int // 0: proper join first; 1: raw attach, script from the first message on; 2: ticket handshake started
		local  bool
		qsize  int
		closeE bool
		hello  wamp.Dict
	}
	atts := make([]attCfg, na)
	for a := range atts {
		atts[a] = attCfg{join: g.Weighted(6, 2, 1), local: g.Bool(), qsize: qs[g.Intn(len(qs))], closeE: g.Bool()}
		if g.Chance(1, 3) {
			// announce only some features so that feature-gated paths are reached
			atts[a].hello = wamp.Dict{"roles": wamp.Dict{"caller": wamp.Dict{}, "publisher": wamp.Dict{}, "callee": wamp.Dict{"features": wamp.Dict{"call_canceling": g.Bool()}}, "subscriber": wamp.Dict{}}}
		}
	}
	var sample []string
	for i, op := range ops {
		if c.Kept(i) && len(sample) < 14 {
			switch op.kind {
			case 0:
				sample = append(sample, fmt.Sprintf("att%d:%s", op.att, Brief(op.msg)))
			case 1:
				sample = append(sample, fmt.Sprintf("att%d:close", op.att))
			case 2:
				sample = append(sample, fmt.Sprintf("att%d:stall", op.att))
			case 3:
				sample = append(sample, fmt.Sprintf("att%d:sleep(%v)", op.att, op.sleep))
			}
		}
	}
	c.Res.Shape = fmt.Sprintf("%x", hashStr(strings.Join(sample, "|"))^c.Spec.SchedSeed)
	c.Res.Sample = strings.Join(sample, " ; ")
	done := make(chan int)
	reached := 0
	for a := 0; a < na; a++ {
		ac := atts[a]
		s := w.NewSess(fmt.Sprintf("att%d", a), "r1", ac.local, ac.qsize, ac.hello)
		simrt.GoIn(s.Party(), "actor:"+s.Name, func() {
			defer func() { done <- a }()
			switch ac.join {
			case 0:
				if !s.Join() {
					return
				}
			case 1:
				s.StartAttach(nil)
				s.StartDrain()
			case 2:
				s.StartAttach(nil)
				s.StartDrain()
				s.Send(&wamp.Hello{Realm: "r1", Details: wamp.Dict{"roles": AllFeatures(), "authmethods": wamp.List{"ticket"}, "authid": "alice"}})
			}
			for i, op := range ops {
				if op.att != a || !c.Kept(i) {
					continue
				}
				switch op.kind {
				case 0:
					if !s.Send(op.msg) {
						return
					}
					reached++
				case 1:
					c.Fault("disconnect")
					s.CloseTransport()
					return
				case 2:
					c.Fault("client_stall")
					s.Stall()
				case 3:
					c.Fault("client_pause")
					time.Sleep(op.sleep)
				}
			}
			if ac.closeE {
				c.Fault("disconnect")
				s.CloseTransport()
			}
		})
	}
	for a := 0; a < na; a++ {
		<-done
	}
	simrt.WaitQuiescent("hostile-done")
	if reached > 0 {
		c.Res.NonTrivial = true
	}
	if !HealthProbe(c, w, "r1", "a", c04Patience) {
		return
	}
	// let every timer of the hostile phase expire (handshake time-outs,
	// call time-outs, yield retries) and probe again
	time.Sleep(3 * time.Minute)
	simrt.WaitQuiescent("timers")
	if !HealthProbe(c, w, "r1", "b", c04Patience) {
		return
	}
	CloseAll(c, w, true)
}
