package vsim

import (
	"bytes"
	"fmt"
	"reflect"
	"strings"
	"time"

	"github.com/ugorji/go/codec"

	"github.com/gammazero/nexus/v3/router"
	"github.com/gammazero/nexus/v3/simrt"
	"github.com/gammazero/nexus/v3/transport"
	"github.com/gammazero/nexus/v3/transport/serialize"
	"github.com/gammazero/nexus/v3/wamp"
)

// runC04b: byte-level hostile input on the network transports. One to three
// connections (rawsocket over a SimConn with the real AcceptRawSocket, or a
// FakeWS end with the real websocket peer; any serializer) send frames whose
// payloads are valid messages, mutated valid messages (truncated, bytes
// flipped, spliced), or pathological encodings (deep nesting, huge announced
// lengths, wrong top-level types, invalid UTF-8), plus transport-level abuse
// (reserved frame types, lengths beyond the limit, half frames, control frames
// with payload, data after close) and disconnects at any point. Oracle as for
// C04: no panic or fatal error anywhere, an uninvolved fresh session is served
// afterwards, clean shutdown.

// pathological returns an encoding-level attack for the serializer.
func pathological(g *Rand, sz serialize.Serialization) []byte {
	n := []int{1, 3, 40, 1100, 5000, 70000}[g.Intn(6)]
	switch sz {
	case serialize.JSON:
		switch g.Intn(9) {
		case 0:
			return []byte(strings.Repeat("[", n))
		case 1:
			return []byte("[48,1,{}," + strings.Repeat("[", n) + strings.Repeat("]", n) + "]")
		case 2:
			return []byte("[48,1,{}," + strings.Repeat(`{"a":`, n) + "1" + strings.Repeat("}", n) + "]")
		case 3:
			return []byte(`[16,1e999999,{},"t.a"]`)
		case 4:
			return []byte("[16,1,{},\"t.\xff\xfe\x00\"]")
		case 5:
			return []byte(`{"a":1}`)
		case 6:
			return []byte(`[1e3,"r1",{}]`)
		case 7:
			return []byte(`[32,-1,{"match":[]},"t.a"]` + strings.Repeat(" ", n))
		default:
			return []byte(`[16,18446744073709551616,{"acknowledge":1},"t.a",{},[]]`)
		}
	case serialize.MSGPACK:
		switch g.Intn(9) {
		case 0:
			return bytes.Repeat([]byte{0x91}, n) // nested one-element arrays
		case 1:
			return []byte{0xdd, 0x00, 0xff, 0xff, 0xff} // array32 of 16M elements, no data
		case 2:
			return []byte{0x93, 0x10, 0x01, 0xdf, 0x00, 0xff, 0xff, 0xff} // publish with map32 of 16M entries
		case 3:
			return []byte{0x94, 0x10, 0x01, 0x80, 0xdb, 0x7f, 0xff, 0xff, 0xff, 't'} // str32 of 2G bytes
		case 4:
			return []byte{0x94, 0x10, 0x01, 0x80, 0xc6, 0x00, 0xff, 0xff, 0xff} // bin32
		case 5:
			return []byte{0x81, 0xa1, 'a', 0x01} // top-level map
		case 6:
			return []byte{0x93, 0xcb, 0x40, 0x40, 0, 0, 0, 0, 0, 0, 0xa2, 'r', '1'} // float message code
		case 7:
			return []byte{0x94, 0xd3, 0x80, 0, 0, 0, 0, 0, 0, 0, 0x01, 0x80, 0xa3, 't', '.', 'a'} // int64 min as code
		default:
			return []byte{0x94, 0x10, 0x01, 0x80, 0xc7, 0x03, 0x05, 1, 2, 3} // ext type in topic position
		}
	default: // CBOR
		switch g.Intn(9) {
		case 0:
			return bytes.Repeat([]byte{0x81}, n)
		case 1:
			return []byte{0x9a, 0x00, 0xff, 0xff, 0xff}
		case 2:
			return []byte{0x83, 0x10, 0x01, 0xba, 0x00, 0xff, 0xff, 0xff}
		case 3:
			return []byte{0x84, 0x10, 0x01, 0xa0, 0x7a, 0x7f, 0xff, 0xff, 0xff, 't'}
		case 4:
			return []byte{0x9f, 0x10, 0x01, 0xbf, 0xff, 0x7f, 0x61, 't', 0xff} // indefinite lengths, unterminated
		case 5:
			return []byte{0xa1, 0x61, 'a', 0x01}
		case 6:
			return []byte{0x83, 0xfb, 0x40, 0x40, 0, 0, 0, 0, 0, 0, 0x62, 'r', '1'}
		case 7:
			return []byte{0x84, 0x10, 0x01, 0xa0, 0xc2, 0x49, 1, 0, 0, 0, 0, 0, 0, 0, 0} // bignum tag
		default:
			return append(bytes.Repeat([]byte{0xd8, 0x20}, n), 0x61, 'a') // nested tags
		}
	}
}

// canonBytes re-encodes a serialized message with map keys in sorted order:
// the serializers write Go maps in Go's random iteration order, and the
// mutations below address bytes by position, so without this the same seed
// would damage different fields in different processes.
func canonBytes(sz serialize.Serialization, b []byte) []byte {
	var h codec.Handle
	switch sz {
	case serialize.MSGPACK:
		mh := &codec.MsgpackHandle{}
		mh.WriteExt, mh.Canonical = true, true
		mh.MapType = reflect.TypeFor[map[string]any]()
		h = mh
	case serialize.CBOR:
		ch := &codec.CborHandle{}
		ch.Canonical = true
		ch.MapType = reflect.TypeFor[map[string]any]()
		h = ch
	default:
		jh := &codec.JsonHandle{}
		jh.Canonical = true
		jh.MapType = reflect.TypeFor[map[string]any]()
		h = jh
	}
	var v any
	if err := codec.NewDecoderBytes(b, h).Decode(&v); err != nil {
		return b
	}
	var out []byte
	if err := codec.NewEncoderBytes(&out, h).Encode(v); err != nil {
		return b
	}
	return out
}

// mutate damages a valid encoding.
func mutate(g *Rand, b []byte, other []byte) []byte {
	b = append([]byte(nil), b...)
	if len(b) == 0 {
		return b
	}
	switch g.Intn(6) {
	case 0:
		return b[:g.Intn(len(b))]
	case 1:
		for k := g.Range(1, 3); k > 0; k-- {
			b[g.Intn(len(b))] ^= byte(1 << g.Intn(8))
		}
		return b
	case 2:
		i := g.Intn(len(b))
		return append(append(append([]byte(nil), b[:i]...), other...), b[i:]...)
	case 3:
		return append(b, other...)
	case 4:
		b[g.Intn(len(b))] = byte(g.Intn(256))
		return b
	default:
		i := g.Intn(len(b))
		return append(b[:i], b[i+1:]...)
	}
}

type c04bStep struct {
	kind int // 0 valid hostile message, 1 mutated, 2 pathological, 3 transport abuse, 4 disconnect, 5 pause, 6 valid HELLO
	data []byte
	sub  int
	n    int // drawn size / opcode for transport abuse
	wait time.Duration
}

func runC04b(c *Ctx) {
	g := c.Gen
	rc := &router.RealmConfig{URI: "r1", AnonymousAuth: true, AllowDisclose: g.Bool(), StrictURI: g.Chance(1, 4), EnableMetaKill: g.Bool(), EnableMetaModify: g.Bool()}
	w, err := NewWorld(c.S, &router.Config{RealmConfigs: []*router.RealmConfig{rc}})
	if err != nil {
		c.Res.Tooling = "NewRouter: " + err.Error()
		return
	}
	c.W = w
	loc := w.NewSess("loc", "r1", true, 64, nil)
	if !loc.Join() {
		c.Res.Tooling = "local session could not join"
		return
	}
	loc.OnRecv = CalleeBehaviour(func(inv *wamp.Invocation) int { return BehEcho })
	loc.Send(&wamp.Register{Request: loc.NextReq(), Options: wamp.Dict{}, Procedure: "p.echo"})
	loc.Send(&wamp.Subscribe{Request: loc.NextReq(), Options: wamp.Dict{"match": "prefix"}, Topic: "t."})
	simrt.WaitQuiescent("setup")
	known := []wamp.ID{loc.ID, 1, 2, 3}

	nconn := g.Range(1, 3)
	type conn struct {
		ws    bool
		sz    serialize.Serialization
		szIdx int
		steps []c04bStep
		cc    *SimConn
		cw    *FakeWS
		limit int
		leave bool // left open at shutdown
	}
	var conns []*conn
	var sample []string
	nops := 0
	for k := 0; k < nconn; k++ {
		cn := &conn{ws: g.Bool(), szIdx: g.Intn(3), leave: g.Chance(1, 3)}
		cn.sz = []serialize.Serialization{serialize.JSON, serialize.MSGPACK, serialize.CBOR}[cn.szIdx]
		ser, _ := serializerOf(cn.sz)
		ns := g.Range(2, 9)
		for i := 0; i < ns; i++ {
			st := c04bStep{kind: g.Weighted(4, 5, 5, 3, 1, 1, 3)}
			if i == 0 && g.Chance(2, 3) {
				st.kind = 6
			}
			valid := func() []byte {
				for try := 0; try < 5; try++ {
					if b, err := ser.Serialize(HostileMessage(g, known)); err == nil {
						return canonBytes(cn.sz, b)
					}
				}
				b, _ := ser.Serialize(&wamp.Publish{Request: 7, Options: wamp.Dict{}, Topic: "t.a"})
				return canonBytes(cn.sz, b)
			}
			switch st.kind {
			case 0:
				st.data = valid()
			case 1:
				st.data = mutate(g, valid(), valid())
			case 2:
				st.data = pathological(g, cn.sz)
			case 3:
				st.sub = g.Intn(6)
				st.n = []int{0, 125, 300, 4000}[g.Intn(4)]
				st.data = valid()
			case 5:
				st.wait = time.Duration(g.Range(1, 90)) * time.Second
			case 6:
				st.data, _ = ser.Serialize(&wamp.Hello{Realm: "r1", Details: wamp.Dict{"roles": AllFeatures()}})
				st.data = canonBytes(cn.sz, st.data)
			}
			cn.steps = append(cn.steps, st)
			sample = append(sample, fmt.Sprintf("c%d(%s,%d):k%d.%d/%dB", k, map[bool]string{true: "ws", false: "raw"}[cn.ws], cn.szIdx, st.kind, st.sub, len(st.data)))
			nops++
		}
		conns = append(conns, cn)
	}
	c.Res.NOps = nops
	c.Res.Sample = strings.Join(sample, " ")
	c.Res.Shape = fmt.Sprintf("%x", hashStr(c.Res.Sample)^c.Spec.SchedSeed)

	done := make(chan int)
	reached := 0
	base := 0
	for k, cn := range conns {
		first := base
		base += len(cn.steps)
		srvLimit := []int{0, 512, 4096}[g.Intn(3)]
		faults := NetFaults{MaxFrag: []int{0, 1, 3, 64}[g.Intn(4)], Window: []int{0, 16, 600}[g.Intn(3)]}
		name := fmt.Sprintf("bx%d", k)
		var write func(st c04bStep) bool
		if cn.ws {
			ser, pt := serializerOf(cn.sz)
			cw, sw := NewFakeWSPair(c, name, wsProto[cn.sz], []int{2, 64}[g.Intn(2)], 0)
			cn.cw = cw
			keep := []time.Duration{0, 0, 7 * time.Second}[g.Intn(3)]
			simrt.Go("attach:"+name, func() {
				peer := transport.NewWebsocketPeer(sw, ser, pt, w.Log, keep, 16)
				w.R.AttachClient(peer, nil)
			})
			simrt.Go("actor:"+name+":rd", func() {
				for {
					if _, _, err := cw.ReadMessage(); err != nil {
						return
					}
				}
			})
			write = func(st c04bStep) bool {
				typ := pt
				if st.kind == 3 {
					c.Fault("ws_transport_abuse")
					switch st.sub {
					case 0: // wrong message type for the subprotocol
						typ = wsText + wsBinary - pt
					case 1:
						return cw.WriteControl(wsPing, bytes.Repeat([]byte{'p'}, st.n), time.Time{}) == nil
					case 2:
						return cw.WriteControl(wsPong, []byte("unsolicited"), time.Time{}) == nil
					case 3: // close frame, then keep talking
						cw.WriteControl(wsClose, []byte{0x03, 0xe8}, time.Time{})
					case 4:
						return cw.WriteMessage(pt, nil) == nil
					default:
						typ = 3 + st.n%4 // reserved opcode as data type
					}
				}
				return cw.WriteMessage(typ, st.data) == nil
			}
		} else {
			cc, sc := NewSimConnPair(c, name, faults)
			cn.cc = cc
			simrt.Go("attach:"+name, func() {
				peer, err := transport.AcceptRawSocket(sc, w.Log, srvLimit, 16)
				if err != nil {
					return
				}
				w.R.Attach(peer)
			})
			simrt.Go("actor:"+name+":rd", func() {
				buf := make([]byte, 512)
				for {
					if _, err := cc.Read(buf); err != nil {
						return
					}
				}
			})
			lim := 1 << 24
			if srvLimit > 0 {
				lim = srvLimit
			}
			cn.limit = lim
			write = func(st c04bStep) bool {
				fr := frame(0, st.data)
				if st.kind == 3 {
					c.Fault("raw_transport_abuse")
					switch st.sub {
					case 0:
						fr = frame(byte(3+st.n%5), st.data) // reserved type
					case 1: // header announcing more than follows, then the next frame
						fr = frame(0, st.data)
						fr = fr[:4+len(st.data)/2]
					case 2: // announced length beyond the server's limit, no body
						fr = []byte{0, byte((lim + 1) >> 16), byte((lim + 1) >> 8), byte(lim + 1)}
					case 3:
						fr = frame(1, bytes.Repeat([]byte{'p'}, st.n)) // PING, large
					case 4:
						fr = frame(2, []byte("unsolicited pong"))
					default:
						fr = frame(0, nil)
					}
				}
				_, err := cc.Write(fr)
				return err == nil
			}
		}
		simrt.Go("actor:"+name, func() {
			defer func() { done <- k }()
			if !cn.ws {
				hs := []byte{0x7f, 0xf0 | byte(cn.szIdx+1), 0, 0}
				if _, err := cn.cc.Write(hs); err != nil {
					return
				}
			}
			for i, st := range cn.steps {
				if !c.Kept(first + i) {
					continue
				}
				switch st.kind {
				case 4:
					c.Fault("disconnect")
					if cn.ws {
						cn.cw.Close()
					} else {
						cn.cc.Close()
					}
					return
				case 5:
					c.Fault("client_pause")
					time.Sleep(st.wait)
				default:
					if st.kind == 1 {
						c.Fault("mutated_payload")
					}
					if st.kind == 2 {
						c.Fault("pathological_encoding")
					}
					if !write(st) {
						return
					}
					reached++
				}
			}
		})
	}
	for range conns {
		<-done
	}
	simrt.WaitQuiescent("hostile-done")
	if reached > 0 {
		c.Res.NonTrivial = true
	}
	if !HealthProbe(c, w, "r1", "a", c04Patience) {
		return
	}
	time.Sleep(3 * time.Minute)
	simrt.WaitQuiescent("timers")
	if !HealthProbe(c, w, "r1", "b", c04Patience) {
		return
	}
	for _, cn := range conns {
		if cn.leave {
			continue
		}
		if cn.ws {
			cn.cw.Close()
		} else {
			cn.cc.Close()
		}
	}
	CloseAll(c, w, true)
	// whatever was left open must have been closed by the router
	for _, cn := range conns {
		if cn.ws {
			cn.cw.Close()
		} else {
			cn.cc.Close()
		}
	}
}
