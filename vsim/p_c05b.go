package vsim

import (
	"fmt"
	"strings"
	"time"

	"github.com/gammazero/nexus/v3/router"
	"github.com/gammazero/nexus/v3/simrt"
	"github.com/gammazero/nexus/v3/wamp"
)

// chanPeer is a wamp.Peer over plain channels whose router-to-client channel
// may be unbuffered: a legal Peer implementation (Router.AttachClient takes
// any), and the one with which "the client has not taken its WELCOME yet" is a
// state that lasts.
type chanPeer struct {
	rd <-chan wamp.Message
	wr chan<- wamp.Message
}

func (p *chanPeer) IsLocal() bool             { return false }
func (p *chanPeer) Recv() <-chan wamp.Message { return p.rd }
func (p *chanPeer) Send() chan<- wamp.Message { return p.wr }
func (p *chanPeer) Close()                    { close(p.wr) }

// NewUnbufferedSess creates a session whose router-to-client queue has no
// buffer at all.
func (w *World) NewUnbufferedSess(name string, realm wamp.URI, hello wamp.Dict) *Sess {
	rToC := make(chan wamp.Message)
	cToR := make(chan wamp.Message)
	s := &Sess{W: w, Idx: len(w.Sess), Name: name, Realm: realm, Cli: &chanPeer{rd: rToC, wr: cToR}, Rtr: &chanPeer{rd: cToR, wr: rToC}, QSize: 0, ctl: make(chan int), Dead: make(chan struct{}), closeReq: make(chan struct{}), Hello: hello}
	w.Sess = append(w.Sess, s)
	return s
}

// runC05b: session ends under concurrency. A concurrent workload (pub/sub,
// calls with time-outs and cancels, slow and silent callees, stalls) runs
// while sessions leave in every way, late joiners attach (some never read
// their WELCOME, some drop the transport right after HELLO, some over a peer
// without any buffer) and a killer session fires kill_all / kill_by_authrole /
// kill(id) at drawn moments. Testaments are stored by everybody. Then faults
// stop, whoever is left leaves, the clock passes every timer - and the router
// must be back at its start baseline (C05: "holds no per-session,
// per-subscription, per-registration or per-call state"), no testament may
// have been published twice, and an observer that stayed attached and lost
// nothing must have seen each ended session's testament exactly once.
func runC05b(c *Ctx) {
	g := c.Gen
	rc := &router.RealmConfig{URI: "r1", AnonymousAuth: true, AllowDisclose: g.Bool(), EnableMetaKill: true}
	w, err := NewWorld(c.S, &router.Config{RealmConfigs: []*router.RealmConfig{rc}})
	if err != nil {
		c.Res.Tooling = "NewRouter: " + err.Error()
		return
	}
	c.W = w
	baseline := snapshotText(w)
	ns := g.Range(2, 5)
	tc := TrafficCfg{NSess: ns, OpsPerSess: g.Range(4, 12), Faults: true, Timeouts: true, Cancels: true, Meta: g.Bool(), Kills: g.Chance(1, 3)}
	ops := GenTraffic(g, tc)
	nJoin := g.Range(0, 3)
	nKill := g.Range(0, 4)
	type joiner struct {
		kind  int // 0 normal, 1 never reads, 2 drops right after HELLO, 3 unbuffered peer that never reads, 4 unbuffered peer reading late
		delay time.Duration
		q     int
		late  time.Duration
	}
	var joiners []joiner
	delays := []time.Duration{0, 0, time.Millisecond, 50 * time.Millisecond, 2 * time.Second, 40 * time.Second}
	for i := 0; i < nJoin; i++ {
		joiners = append(joiners, joiner{kind: g.Intn(5), delay: PickOf(g, delays), q: g.Range(1, 3), late: time.Duration(g.Range(1, 3000)) * time.Millisecond})
	}
	type killOp struct {
		how   int
		delay time.Duration
	}
	var kills []killOp
	for i := 0; i < nKill; i++ {
		kills = append(kills, killOp{how: g.Intn(4), delay: PickOf(g, delays)})
	}
	base := len(ops)
	c.Res.NOps = base + nJoin + nKill
	c.Res.Sample = fmt.Sprintf("%d joiners %v, %d kills %v | %s", nJoin, joiners, nKill, kills, opsSample(ops, c, 0, 24))
	c.Res.Shape = fmt.Sprintf("%x", hashStr(c.Res.Sample)^c.Spec.SchedSeed)

	// the observer of testaments: local, large queue, joins first
	obs := w.NewSess("obs", "r1", true, 4096, nil)
	if !obs.Join() {
		c.Res.Tooling = "observer could not join"
		return
	}
	oreq := obs.NextReq()
	obs.Send(&wamp.Subscribe{Request: oreq, Options: wamp.Dict{"match": "prefix"}, Topic: "tm."})
	if obs.Await(time.Second, func(m wamp.Message) bool { s, ok := m.(*wamp.Subscribed); return ok && s.Request == oreq }) == nil {
		c.Res.Tooling = "observer not subscribed"
		return
	}
	hasTestament := map[string]bool{}
	addTestament := func(s *Sess) {
		req := s.NextReq()
		scope := []string{"destroyed", "detached"}[hashStr(s.Name)%2]
		if !s.Send(&wamp.Call{Request: req, Options: wamp.Dict{}, Procedure: "wamp.session.add_testament",
			Arguments: wamp.List{"tm." + strings.ReplaceAll(s.Name, ".", "_"), wamp.List{s.Name}, wamp.Dict{}}, ArgumentsKw: wamp.Dict{"scope": scope}}) {
			return
		}
		r := s.Await(time.Second, func(m wamp.Message) bool {
			switch x := m.(type) {
			case *wamp.Result:
				return x.Request == req
			case *wamp.Error:
				return x.Request == req
			}
			return false
		})
		if _, ok := r.(*wamp.Result); ok {
			hasTestament[s.Name] = true
		}
	}
	var clients []*TClient
	behs := []int{BehEcho, BehEcho, BehError, BehIgnore, BehProgress, BehSlow, BehTwice}
	for i := 0; i < ns; i++ {
		s := NewAnySess(c, w, g, fmt.Sprintf("s%d", i), "r1", []int{64, 8, 2}[g.Intn(3)], nil)
		cl := NewTClient(s, behs[g.Intn(len(behs))], time.Duration([]int{1, 50, 2000, 40000}[g.Intn(4)])*time.Millisecond)
		if !s.Join() {
			c.Res.Tooling = "traffic session could not join"
			return
		}
		if g.Chance(2, 3) {
			addTestament(s)
		}
		clients = append(clients, cl)
	}
	killer := w.NewSess("killer", "r1", true, 4096, nil)
	if nKill > 0 {
		if !killer.Join() {
			c.Res.Tooling = "killer could not join"
			return
		}
	}
	done := make(chan int)
	nact := 0
	var late []*Sess
	for i, j := range joiners {
		if !c.Kept(base + i) {
			continue
		}
		nact++
		name := fmt.Sprintf("j%d", i)
		var s *Sess
		switch j.kind {
		case 3, 4:
			s = w.NewUnbufferedSess(name, "r1", nil)
		default:
			s = w.NewSess(name, "r1", g.Bool(), j.q, nil)
		}
		late = append(late, s)
		simrt.GoIn(s.Party(), "actor:"+name, func() {
			defer func() { done <- 0 }()
			if j.delay > 0 {
				time.Sleep(j.delay)
			}
			c.Probe(fmt.Sprintf("late_joiner_kind%d", j.kind))
			switch j.kind {
			case 0:
				if s.Join() {
					addTestament(s)
					req := s.NextReq()
					s.Send(&wamp.Subscribe{Request: req, Options: wamp.Dict{}, Topic: "t.a"})
					s.Send(&wamp.Register{Request: s.NextReq(), Options: wamp.Dict{}, Procedure: wamp.URI("p.late." + name)})
				}
			case 1, 3:
				// HELLO, then silence: never reads
				s.StartAttach(nil)
				s.TrySendFor(&wamp.Hello{Realm: "r1", Details: wamp.Dict{"roles": AllFeatures()}}, SendPatience)
			case 2:
				s.StartAttach(nil)
				s.TrySendFor(&wamp.Hello{Realm: "r1", Details: wamp.Dict{"roles": AllFeatures()}}, SendPatience)
				s.CloseTransport()
			case 4:
				s.StartAttach(nil)
				s.TrySendFor(&wamp.Hello{Realm: "r1", Details: wamp.Dict{"roles": AllFeatures()}}, SendPatience)
				time.Sleep(j.late)
				s.StartDrain()
			}
		})
	}
	if nKill > 0 {
		nact++
		simrt.GoIn(killer.Party(), "actor:killer", func() {
			defer func() { done <- 1 }()
			for i, k := range kills {
				if !c.Kept(base + nJoin + i) {
					continue
				}
				if k.delay > 0 {
					time.Sleep(k.delay)
				}
				c.Fault("meta_kill")
				switch k.how {
				case 0:
					killer.Send(&wamp.Call{Request: killer.NextReq(), Options: wamp.Dict{}, Procedure: "wamp.session.kill_all"})
				case 1:
					killer.Send(&wamp.Call{Request: killer.NextReq(), Options: wamp.Dict{}, Procedure: "wamp.session.kill_by_authrole", Arguments: wamp.List{"anonymous"}})
				case 2:
					killer.Send(&wamp.Call{Request: killer.NextReq(), Options: wamp.Dict{}, Procedure: "wamp.session.kill_by_authrole", Arguments: wamp.List{"trusted"},
						ArgumentsKw: wamp.Dict{"reason": "wamp.close.normal"}})
				case 3:
					req := killer.NextReq()
					killer.Send(&wamp.Call{Request: req, Options: wamp.Dict{}, Procedure: "wamp.session.list"})
					r, _ := killer.Await(time.Second, func(m wamp.Message) bool { x, ok := m.(*wamp.Result); return ok && x.Request == req }).(*wamp.Result)
					if r != nil {
						for _, id := range idsOf(arg0(r)) {
							if id != killer.ID && id != obs.ID {
								killer.Send(&wamp.Call{Request: killer.NextReq(), Options: wamp.Dict{}, Procedure: "wamp.session.kill", Arguments: wamp.List{id}})
							}
						}
					}
				}
			}
		})
	}
	nact++
	simrt.Go("actor:traffic", func() {
		defer func() { done <- 2 }()
		RunTraffic(c, clients, ops, 0)
	})
	for ; nact > 0; nact-- {
		<-done
	}
	simrt.WaitQuiescent("c05b-traffic-done")
	c.DisarmDrops()
	for _, cl := range clients {
		cl.Resume()
	}
	time.Sleep(5 * time.Minute)
	simrt.WaitQuiescent("c05b-settled")
	// whoever is left leaves, each in a drawn way
	all := append([]*Sess{}, late...)
	for _, cl := range clients {
		all = append(all, cl.Sess)
	}
	for _, s := range all {
		if s.CliClosed {
			continue
		}
		if s.QSize == 0 && !s.draining {
			// over the bufferless peer: a client that never took its WELCOME takes it now, before it goes
			s.StartDrain()
			simrt.WaitQuiescent("c05b-late-read")
		}
		if s.Joined && !s.RecvClosed && g.Bool() {
			s.TrySendFor(&wamp.Goodbye{Reason: wamp.CloseNormal, Details: wamp.Dict{}}, time.Second)
			simrt.WaitQuiescent("c05b-goodbye")
		}
		s.CloseTransport()
	}
	simrt.WaitQuiescent("c05b-all-left")
	time.Sleep(3 * time.Minute)
	simrt.WaitQuiescent("c05b-timers")
	// testaments: never twice; exactly once for an observer that lost nothing
	seen := map[string]int{}
	for _, r := range obs.Inbox {
		if e, ok := r.Msg.(*wamp.Event); ok && len(e.Arguments) == 1 {
			if n, ok := wamp.AsString(e.Arguments[0]); ok {
				seen[n]++
			}
		}
	}
	obsOK := !obs.RecvClosed && DroppedTo(w, obs.ID) == 0
	for _, s := range all {
		if seen[s.Name] > 1 {
			c.Violf("testament of %s was published %d times", s.Name, seen[s.Name])
		}
		if obsOK && hasTestament[s.Name] && seen[s.Name] == 0 {
			c.Violf("testament of %s (stored, never flushed) was not published although its session has ended", s.Name)
		}
		if hasTestament[s.Name] {
			c.Probe("testament_checked")
		}
	}
	if nKill > 0 && !killer.CliClosed {
		killer.CloseTransport()
	}
	obs.CloseTransport()
	simrt.WaitQuiescent("c05b-observers-left")
	if now := snapshotText(w); now != baseline && len(c.Res.Violations) == 0 {
		c.Violf("router state after all sessions left differs from the baseline: baseline %s, now %s", baseline, now)
	}
	c.Res.NonTrivial = c.S.MultiEnabled > 0
	CloseAll(c, w, false)
}
