package vsim

import (
	"fmt"
	"strings"
	"time"

	"github.com/gammazero/nexus/v3/router"
	"github.com/gammazero/nexus/v3/router/auth"
	"github.com/gammazero/nexus/v3/simrt"
	"github.com/gammazero/nexus/v3/wamp"
)

func init() {
	Register(&PropDef{ID: "C06", Run: runC06, Drops: true})
}

// runC06: Router.Close / RemoveRealm invoked at a drawn scheduling point of a
// concurrent workload (publications, calls with router-side timers, slow and
// silent callees, stalled readers, pending handshakes, departures).
func runC06(c *Ctx) {
	g := c.Gen
	ks := &KS{Name: "static", Users: map[string]KSUser{"alice": {Secret: "ticket1", Role: "user"}}}
	mk := func(uri wamp.URI) *router.RealmConfig {
		return &router.RealmConfig{URI: uri, AnonymousAuth: true, AllowDisclose: true, EnableMetaKill: true,
			Authenticators: []auth.Authenticator{auth.NewTicketAuthenticator(ks, time.Duration(g.Range(1, 40))*time.Second)}}
	}
	cfg := &router.Config{RealmConfigs: []*router.RealmConfig{mk("r1"), mk("r2")}}
	if g.Chance(1, 3) {
		cfg.RealmTemplate = mk("tmpl")
	}
	if g.Chance(1, 4) {
		cfg.MemStatsLogSec = 30
	}
	w, err := NewWorld(c.S, cfg)
	if err != nil {
		c.Res.Tooling = "NewRouter: " + err.Error()
		return
	}
	c.W = w
	qs := []int{1, 2, 8, 64}
	ns := g.Range(2, 5)
	tc := TrafficCfg{NSess: ns, OpsPerSess: g.Range(4, 14), Faults: g.Bool(), Timeouts: true, Cancels: true, Meta: g.Bool(), Kills: g.Chance(1, 4)}
	ops := GenTraffic(g, tc)
	// some call time-outs are long (half an hour, a day): nothing the operator's call waits
	// for may be under a client's control
	for i := range ops {
		if _, has := ops[i].Opts["timeout"]; has && (ops[i].Kind == tCall || ops[i].Kind == tProgCall) && g.Chance(1, 3) {
			ops[i].Opts["timeout"] = []int{1800000, 86400000}[g.Intn(2)]
		}
	}
	// what the operator does, and when
	action := g.Weighted(5, 4, 2, 2) // 0 Close, 1 RemoveRealm(r1), 2 RemoveRealm then Close concurrently, 3 Close twice concurrently
	delaySteps := g.Intn(60 * ns)
	if g.Chance(1, 4) {
		delaySteps = g.Intn(600)
	}
	preSleep := time.Duration(0)
	if g.Chance(1, 3) {
		preSleep = time.Duration([]int{1, 2, 5, 100, 1000, 5000}[g.Intn(6)]) * time.Millisecond
	}
	pendingHS := g.Intn(3) // 0 none, 1 handshake pending (never answers), 2 answers late
	c.Res.NOps = len(ops)
	c.Res.Sample = fmt.Sprintf("action=%d after %d steps +%v hs=%d | %s", action, delaySteps, preSleep, pendingHS, opsSample(ops, c, 0, 24))
	c.Res.Shape = fmt.Sprintf("%x", hashStr(c.Res.Sample)^c.Spec.SchedSeed)

	var clients []*TClient
	for i := 0; i < ns; i++ {
		s := NewAnySess(c, w, g, fmt.Sprintf("s%d", i), "r1", qs[g.Intn(len(qs))], nil)
		beh := []int{BehEcho, BehEcho, BehError, BehIgnore, BehProgress, BehSlow, BehSlow}[g.Intn(7)]
		cl := NewTClient(s, beh, time.Duration([]int{1, 50, 2000, 70000}[g.Intn(4)])*time.Millisecond)
		if !s.Join() {
			c.Res.Tooling = "traffic session could not join"
			return
		}
		clients = append(clients, cl)
	}
	// bystanders in the other realm
	by := w.NewSess("by", "r2", true, 64, nil)
	byc := NewTClient(by, BehEcho, 0)
	if !by.Join() {
		c.Res.Tooling = "bystander could not join"
		return
	}
	byc.Exec(c, TOp{Kind: tSub, URI: "t.a", WaitAck: true})
	byc.Exec(c, TOp{Kind: tReg, URI: "p.a", WaitAck: true})

	var hs *Sess
	if pendingHS > 0 {
		hs = w.NewSess("hs", "r1", false, 8, nil)
		simrt.GoIn(hs.Party(), "hs:pending", func() {
			hs.StartAttach(nil)
			hs.StartDrain()
			hs.Send(&wamp.Hello{Realm: "r1", Details: wamp.Dict{"roles": AllFeatures(), "authmethods": wamp.List{"ticket"}, "authid": "alice"}})
			if pendingHS == 2 {
				time.Sleep(time.Duration(g.Range(1, 3000)) * time.Millisecond)
				hs.Send(&wamp.Authenticate{Signature: "ticket1", Extra: wamp.Dict{}})
			}
		})
	}

	// sessions that join while the operator acts (WELCOME racing shutdown)
	nj := g.Intn(3)
	var joiners []*Sess
	for j := 0; j < nj; j++ {
		js := w.NewSess(fmt.Sprintf("j%d", j), wamp.URI(g.Pick("r1", "r1", "r2")), g.Bool(), qs[g.Intn(len(qs))], nil)
		wait := g.Intn(delaySteps + 40)
		joiners = append(joiners, js)
		simrt.GoIn(js.Party(), "actor:"+js.Name, func() {
			for i := 0; i < wait; i++ {
				simrt.Yield("joinwait")
			}
			if preSleep > 0 {
				time.Sleep(preSleep)
			}
			js.Join()
		})
	}

	var opTook time.Duration
	opDone := make(chan struct{})
	closedAll := false
	removed := map[wamp.URI]bool{}
	inflight := 0
	simrt.Go("op:operator", func() {
		defer close(opDone)
		for i := 0; i < delaySteps; i++ {
			simrt.Yield("opwait")
		}
		if preSleep > 0 {
			time.Sleep(preSleep)
		}
		for _, cl := range clients {
			if !cl.Done {
				inflight++
			}
		}
		simrt.Log("operator acts: %d", action)
		opT0 := c.S.Elapsed()
		defer func() {
			// how much virtual time did the operator's call take? (nothing it waits for may be under a client's control)
			d := c.S.Elapsed() - opT0
			switch {
			case d > 10*time.Minute:
				c.Probe("operator_call_took_over_10m")
				// bounded waits on the way are fine (a handler finishing its message: the result-retry
				// period; a transport's close grace; a pending handshake's time-out) - ten minutes are not
				c.Violf("the operator's call returned only after %v of virtual time: it waited for something a client controls", d)
			case d > 70*time.Second:
				c.Probe("operator_call_took_70s_to_10m")

			case d > time.Second:
				c.Probe("operator_call_took_1s_to_70s")
			case d > 0:
				c.Probe("operator_call_took_under_1s")
			default:
				c.Probe("operator_call_took_no_time")
			}
			opTook = d
		}()
		switch action {
		case 0:
			c.Fault("router_close")
			w.R.Close()
			closedAll = true
		case 1:
			c.Fault("remove_realm")
			w.R.RemoveRealm("r1")
			removed["r1"] = true
		case 2:
			c.Fault("remove_realm")
			c.Fault("router_close")
			d := make(chan struct{})
			simrt.Go("op:operator2", func() { w.R.RemoveRealm("r1"); close(d) })
			w.R.Close()
			<-d
			closedAll = true
		case 3:
			c.Fault("router_close")
			d := make(chan struct{})
			simrt.Go("op:operator2", func() { w.R.Close(); close(d) })
			w.R.Close()
			<-d
			closedAll = true
		}
		simrt.Log("operator done")
	})
	_ = opTook
	trafficDone := make(chan struct{})
	simrt.Go("op:traffic", func() {
		RunTraffic(c, clients, ops, 0)
		close(trafficDone)
	})
	<-opDone
	if inflight > 0 {
		c.Res.NonTrivial = true
		c.Probe("shutdown_with_traffic_in_flight")
	}
	<-trafficDone
	simrt.WaitQuiescent("after-op")
	// let every orphaned timer fire
	time.Sleep(6 * time.Hour)
	simrt.WaitQuiescent("after-6h")
	for _, cl := range clients {
		cl.Resume()
	}
	if hs != nil {
		hs.Resume()
	}
	// a resumed client may first answer queued invocations (and give up
	// after SendPatience each) before it reaches the GOODBYE / closure
	time.Sleep(30 * time.Minute)
	simrt.WaitQuiescent("resumed")

	// every client of a closed realm was told or disconnected
	check := func(s *Sess) {
		if !s.Joined || s.Left || s.CliClosed {
			return
		}
		if s.RecvClosed {
			return
		}
		for _, r := range s.Inbox {
			if _, ok := r.Msg.(*wamp.Goodbye); ok {
				return // killed through the meta API or left
			}
			if _, ok := r.Msg.(*wamp.Abort); ok {
				return
			}
		}
		c.Violf("client %s of a closed realm saw neither GOODBYE nor a closed transport", s.Name)
	}
	if closedAll || removed["r1"] {
		for _, cl := range clients {
			check(cl.Sess)
		}
	}
	for _, js := range joiners {
		// (with a realm template a joiner may legitimately land in a fresh r1
		// created after the removal)
		if closedAll || (removed["r1"] && js.Realm == "r1" && cfg.RealmTemplate == nil) {
			check(js)
		}
	}
	if closedAll {
		check(by)
		// later attach attempts get an error or ABORT
		late := w.NewSess("late", "r1", true, 8, nil)
		if late.Join() {
			c.Violf("a session joined after Router.Close returned")
		} else if late.Abort == nil && !late.RecvClosed {
			c.Violf("late attach after Close got neither ABORT nor a closed transport")
		}
		simrt.WaitQuiescent("late")
	} else {
		// untouched realm unaffected
		if by.RecvClosed || hasGoodbye(by) {
			c.Violf("session of realm r2 was disconnected by RemoveRealm(r1)")
		}
		if !HealthProbe(c, w, "r2", "x", 0) {
			return
		}
		late := w.NewSess("late", "r1", true, 8, nil)
		if late.Join() && cfg.RealmTemplate == nil {
			c.Violf("a session joined removed realm r1 (no template configured)")
		}
		late.CloseTransport()
		simrt.WaitQuiescent("late")
	}
	if hs != nil && !hs.CliClosed {
		hs.CloseTransport()
	}
	CloseAll(c, w, false)
	time.Sleep(6 * time.Hour)
	simrt.WaitQuiescent("end")
	if left := RouterGoroutinesLeft(c); len(left) > 0 {
		c.Violf("goroutines of the router remain after Close (+6h): %s", strings.Join(left, "; "))
	}
}

func hasGoodbye(s *Sess) bool {
	for _, r := range s.Inbox {
		if _, ok := r.Msg.(*wamp.Goodbye); ok {
			return true
		}
	}
	return false
}
