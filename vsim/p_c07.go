package vsim

import (
	"fmt"
	"time"

	"github.com/gammazero/nexus/v3/router"
	"github.com/gammazero/nexus/v3/simrt"
	"github.com/gammazero/nexus/v3/wamp"
)

func init() {
	Register(&PropDef{ID: "C07", Run: func(c *Ctx) {
		if c.Spec.GenSeed%8 == 3 && !simrt.RaceEnabled { // (the wire-level actor's reader is no party of the root: not for the race-detector build)
			c.DisarmDrops()
			runC07b(c) // bounded buffering for a client that is not reading, measured over rawsocket
			return
		}
		runC07(c)
	}, Drops: true})
	Register(&PropDef{ID: "C07b", Run: runC07b})
}

// runC07: some sessions stop reading (and possibly resume) while the others
// run pub/sub, RPC, meta calls, kills, departures; realms are added and
// removed concurrently. Small queues.
func runC07(c *Ctx) {
	g := c.Gen
	rc := &router.RealmConfig{URI: "r1", AnonymousAuth: true, AllowDisclose: g.Chance(2, 3), EnableMetaKill: g.Chance(1, 3)}
	if g.Chance(1, 4) {
		rc.TopicEventHistoryConfigs = []*router.TopicEventHistoryConfig{{Topic: "t.a", MatchPolicy: "exact", Limit: 3}, {Topic: "t.", MatchPolicy: "prefix", Limit: 5}}
	}
	w, err := NewWorld(c.S, &router.Config{RealmConfigs: []*router.RealmConfig{rc}})
	if err != nil {
		c.Res.Tooling = "NewRouter: " + err.Error()
		return
	}
	c.W = w
	mirror := StartMirror(c, w, "r1")
	qs := []int{1, 2, 3, 8}
	ns := g.Range(3, 7)
	tc := TrafficCfg{NSess: ns, OpsPerSess: g.Range(6, 18), Faults: true, Timeouts: g.Bool(), Cancels: g.Bool(), Meta: true, Kills: rc.EnableMetaKill && g.Chance(1, 3)}
	ops := GenTraffic(g, tc)
	// only a subset of sessions ever stalls
	staller := map[int]bool{}
	for i := 0; i < ns; i++ {
		staller[i] = g.Chance(1, 3)
	}
	for i := range ops {
		if (ops[i].Kind == tStall || ops[i].Kind == tResume) && !staller[ops[i].Sess] {
			ops[i].Kind = tMeta
			ops[i].URI = "wamp.session.count"
		}
	}
	// In a quarter of the runs a scripted epilogue for the one bounded exception: a caller with a
	// tiny queue stops reading for minutes, has its queue filled, and calls (asking for progress)
	// a callee that streams progressive results; the callee's YIELDs are held back for that
	// caller - for at most the result-retry period, after which the callee's own later request
	// (a SUBSCRIBE queued behind the held-back YIELD) must have been answered.
	streamCallee, deafCaller := -1, -1
	if g.Chance(1, 4) {
		x := g.Intn(ns)
		y := (x + 1 + g.Intn(ns-1)) % ns
		streamCallee, deafCaller = x, y
		staller[y], staller[x] = true, false
		t0 := time.Duration(g.Range(30, 90)) * time.Second
		at := func(s int, d time.Duration) TOp { return TOp{Sess: s, Kind: tSleep, Until: t0 + d} }
		ops = append(ops,
			at(x, 0), TOp{Sess: x, Kind: tResume}, TOp{Sess: x, Kind: tReg, URI: "p.stream", WaitAck: true},
			at(y, 0), TOp{Sess: y, Kind: tResume}, TOp{Sess: y, Kind: tSub, URI: "t.fill3", WaitAck: true},
			at(y, time.Second), TOp{Sess: y, Kind: tStall},
			at(x, 2*time.Second))
		for i := 0; i < 6; i++ {
			ops = append(ops, TOp{Sess: x, Kind: tPub, URI: "t.fill3", Opts: wamp.Dict{}})
		}
		ops = append(ops, at(y, 3*time.Second), TOp{Sess: y, Kind: tCall, URI: "p.stream", Opts: wamp.Dict{"receive_progress": true}},
			at(x, 10*time.Second), TOp{Sess: x, Kind: tSub, URI: "t.later"},
			at(y, time.Duration(g.Range(240, 480))*time.Second), TOp{Sess: y, Kind: tResume})
	}
	c.Res.NOps = len(ops)
	c.Res.Sample = opsSample(ops, c, 0, 36)
	c.Res.Shape = fmt.Sprintf("%x", hashStr(c.Res.Sample)^c.Spec.SchedSeed)
	var clients []*TClient
	for i := 0; i < ns; i++ {
		// sessions that keep reading get a queue that cannot fill up, so
		// that any delay they see is caused by somebody else
		q := 64
		if staller[i] {
			q = qs[g.Intn(len(qs))]
		}
		if i == deafCaller {
			q = g.Range(1, 3)
		}
		s := NewAnySess(c, w, g, fmt.Sprintf("s%d", i), "r1", q, nil)
		cl := NewTClient(s, []int{BehEcho, BehEcho, BehProgress, BehError, BehSlow, BehIgnore}[g.Intn(6)], time.Duration([]int{1, 100, 5000}[g.Intn(3)])*time.Millisecond)
		if i == streamCallee {
			cl.Beh = BehProgress
		}
		if !s.Join() {
			c.Res.Tooling = "traffic session could not join"
			return
		}
		clients = append(clients, cl)
	}
	// realm operations concurrently with the traffic
	realmOps := g.Intn(4)
	opDone := make(chan struct{})
	simrt.Go("op:realms", func() {
		defer close(opDone)
		for i := 0; i < realmOps; i++ {
			for k := g.Intn(80); k > 0; k-- {
				simrt.Yield("opwait")
			}
			c.Fault("add_realm")
			if err := w.R.AddRealm(&router.RealmConfig{URI: "r9", AnonymousAuth: true}); err == nil {
				for k := g.Intn(40); k > 0; k-- {
					simrt.Yield("opwait")
				}
				c.Fault("remove_realm")
				w.R.RemoveRealm("r9")
			}
		}
	})
	RunTraffic(c, clients, ops, 0)
	<-opDone
	simrt.WaitQuiescent("traffic-done")

	everStalled := map[*TClient]bool{}
	for i, op := range ops {
		if op.Kind == tStall && c.Kept(i) {
			everStalled[clients[op.Sess]] = true
		}
	}
	// (bounded buffering holds by construction on the local transport: the
	// queue is a channel of the configured capacity; for network peers see C15)
	for _, cl := range clients {
		if cl.Stalled && !cl.RecvClosed {
			if n := len(cl.Cli.Recv()); n > 0 {
				c.Probe("stalled_session_resumed_with_backlog")
			}
			cl.Resume()
		}
	}
	time.Sleep(5 * time.Minute)
	simrt.WaitQuiescent("settled")

	nStalled := 0
	for _, cl := range clients {
		if everStalled[cl] {
			nStalled++
		}
	}
	if nStalled > 0 {
		c.Res.NonTrivial = true
	}
	// every request of a session that kept reading is answered, without delay
	for _, cl := range clients {
		if everStalled[cl] || LossyTo(c, w, cl.Sess) {
			continue
		}
		replyAt := map[string]time.Duration{}
		for _, r := range cl.Inbox {
			k := ""
			switch x := r.Msg.(type) {
			case *wamp.Subscribed:
				k = fmt.Sprintf("32:%d", x.Request)
			case *wamp.Unsubscribed:
				k = fmt.Sprintf("34:%d", x.Request)
			case *wamp.Registered:
				k = fmt.Sprintf("64:%d", x.Request)
			case *wamp.Unregistered:
				k = fmt.Sprintf("66:%d", x.Request)
			case *wamp.Published:
				k = fmt.Sprintf("16:%d", x.Request)
			case *wamp.Result:
				if p, _ := x.Details["progress"].(bool); !p {
					k = fmt.Sprintf("48:%d", x.Request)
				}
			case *wamp.Error:
				k = fmt.Sprintf("%d:%d", int(x.Type), x.Request)
			}
			if k != "" {
				if _, seen := replyAt[k]; !seen {
					replyAt[k] = r.T
				}
			}
		}
		gone := cl.Left || cl.CliClosed || cl.RecvClosed
		// The one bounded exception: while the dealer holds back (and
		// retries) a YIELD of this session for a caller that cannot take the
		// RESULT right now, this session's handler is busy and its later
		// messages wait - for at most the result-retry period. Callers that
		// can be in that state here: those with a small queue or that stalled.
		var heldYields []time.Duration
		for _, o := range cl.Out {
			if y, ok := o.Msg.(*wamp.Yield); ok && o.OK {
				for _, iv := range cl.Invs {
					if iv.Req != y.Request {
						continue
					}
					for _, caller := range clients {
						for _, cr := range caller.Calls {
							if cr.Tag == iv.Tag && (everStalled[caller] || caller.QSize < 64 || LossyTo(c, w, caller.Sess)) {
								heldYields = append(heldYields, o.T)
							}
						}
					}
				}
			}
		}
		const retryPeriod = 66 * time.Second // one minute as documented, the last back-off step rounds it up
		for _, o := range cl.Out {
			if !o.OK {
				continue
			}
			k, what, instant := "", "", true
			switch x := o.Msg.(type) {
			case *wamp.Subscribe:
				k, what = fmt.Sprintf("32:%d", x.Request), "SUBSCRIBE"
			case *wamp.Unsubscribe:
				k, what = fmt.Sprintf("34:%d", x.Request), "UNSUBSCRIBE"
			case *wamp.Register:
				k, what = fmt.Sprintf("64:%d", x.Request), "REGISTER"
			case *wamp.Unregister:
				k, what = fmt.Sprintf("66:%d", x.Request), "UNREGISTER"
			case *wamp.Publish:
				if ack, _ := x.Options["acknowledge"].(bool); ack {
					k, what = fmt.Sprintf("16:%d", x.Request), "PUBLISH"
				}
			case *wamp.Call:
				if len(x.Procedure) > 5 && x.Procedure[:5] == "wamp." {
					k, what = fmt.Sprintf("48:%d", x.Request), "meta CALL "+string(x.Procedure)
				}
			}
			if k == "" {
				continue
			}
			c.Probe("request_checked")
			at, ok := replyAt[k]
			if !ok {
				if gone {
					continue // it left before the answer; nothing is promised then
				}
				c.Violf("request of %s was never answered although it kept reading: %s", cl.Name, Brief(o.Msg))
				continue
			}
			// (a callee that streams progressive results can have several YIELDs held back one
			// after the other, each for up to the retry period: the caller reads a little, stops again)
			// The handler may have been busy from some held-back YIELD on, for up to the retry
			// period per YIELD handed over since (over a network transport a message counts as
			// handed over when the client's transport has taken it, long before the handler does).
			for _, tj := range heldYields {
				if tj > at {
					continue
				}
				cnt := 0
				for _, ti := range heldYields {
					if ti >= tj && ti <= at {
						cnt++
					}
				}
				if at-tj <= time.Duration(cnt)*retryPeriod {
					instant = false // possibly queued behind held-back YIELDs
					c.Probe("request_behind_held_yield")
					break
				}
			}
			if instant && at-o.T > 0 {
				c.Violf("%s of %s, which kept reading, was answered only after %v (unresponsive sessions: %d)", what, cl.Name, at-o.T, nStalled)
			}
		}
	}
	lossy := map[*TClient]bool{}
	for _, cl := range clients {
		if everStalled[cl] || LossyTo(c, w, cl.Sess) {
			lossy[cl] = true
		}
	}
	CheckDisclosure(c, clients, rc.AllowDisclose)
	CheckOrderingLossy(c, clients, lossy)
	mirror.Check(c, w)
	CloseAll(c, w, false)
}

func keepReaders(cs []*TClient, stalled map[*TClient]bool, w *World) []*TClient {
	var out []*TClient
	for _, c := range cs {
		if !stalled[c] && DroppedTo(w, c.ID) == 0 {
			out = append(out, c)
		}
	}
	return out
}
