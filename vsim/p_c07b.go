package vsim

import (
	"fmt"
	"time"

	"github.com/gammazero/nexus/v3/router"
	"github.com/gammazero/nexus/v3/simrt"
	"github.com/gammazero/nexus/v3/transport"
	"github.com/gammazero/nexus/v3/transport/serialize"
	"github.com/gammazero/nexus/v3/wamp"
)

// runC07b: "a client that stops reading has at most its configured outbound queue of
// messages buffered for it and loses the rest" - measured exactly, over rawsocket, with a
// wire-level client that decides frame by frame when it reads and a connection whose window
// holds a few bytes only. The client subscribes and stops reading; a burst of events far
// larger than its queue is published; it reads exactly one frame; a second burst; then it
// reads everything. Whatever it finds besides that one frame was buffered for it while it
// was not reading: at most the queue, the one frame the router's sender had in its hands,
// and what fits into the connection's window.
func runC07b(c *Ctx) {
	g := c.Gen
	q := []int{4, 8, 16}[g.Intn(3)]
	window := []int{8, 16, 40}[g.Intn(3)]
	szIdx := g.Intn(3)
	sz := []serialize.Serialization{serialize.JSON, serialize.MSGPACK, serialize.CBOR}[szIdx]
	ser, _ := serializerOf(sz)
	b1, b2 := 3*q+g.Range(1, 9), 3*q+g.Range(1, 9)
	peek := g.Range(1, 2)
	c.Res.NOps = 4
	c.Res.Sample = fmt.Sprintf("rawsocket queue=%d window=%dB ser=%d: stop reading, %d events, read %d frame(s), %d events, read all", q, window, szIdx, b1, peek, b2)
	c.Res.Shape = fmt.Sprintf("%x", hashStr(c.Res.Sample)^c.Spec.SchedSeed)
	rc := &router.RealmConfig{URI: "r1", AnonymousAuth: true}
	w, err := NewWorld(c.S, &router.Config{RealmConfigs: []*router.RealmConfig{rc}})
	if err != nil {
		c.Res.Tooling = "NewRouter: " + err.Error()
		return
	}
	c.W = w
	cc, sc := NewSimConnPair(c, "raw", NetFaults{Window: window})
	simrt.Go("attach:raw", func() {
		peer, err := transport.AcceptRawSocket(sc, w.Log, 0, q)
		if err != nil {
			return
		}
		w.R.Attach(peer)
	})
	a := &rawActor{c: c, conn: cc, ser: ser, done: make(chan struct{})}
	cc.Write([]byte{0x7f, 0xf0 | byte(szIdx+1), 0, 0})
	var rep [4]byte
	if !a.readFull(rep[:]) || rep[0] != 0x7f {
		c.Res.Tooling = "rawsocket handshake failed"
		return
	}
	a.tokens = make(chan struct{}, 64)
	simrt.Go("actor:rawreader", a.readLoop) // reads freely until told otherwise
	a.send(&wamp.Hello{Realm: "r1", Details: wamp.Dict{"roles": wamp.Dict{"subscriber": wamp.Dict{}}}})
	a.send(&wamp.Subscribe{Request: 1, Options: wamp.Dict{"match": "prefix"}, Topic: "u."})
	simrt.WaitQuiescent("c07b-joined")
	subscribed := false
	for _, f := range a.frames {
		if _, ok := f.msg.(*wamp.Subscribed); ok {
			subscribed = true
		}
	}
	if !subscribed {
		c.Res.Tooling = "wire-level client not subscribed"
		return
	}
	pub := w.NewSess("pub", "r1", true, 64, nil)
	if !pub.Join() {
		c.Res.Tooling = "publisher could not join"
		return
	}
	// the client stops reading: the reader takes one token per frame, and there are none now
	a.manual = true
	c.Fault("client_stall")
	before := len(a.frames)
	n := 0
	burst := func(k int) {
		for i := 0; i < k; i++ {
			n++
			pub.Send(&wamp.Publish{Request: pub.NextReq(), Options: wamp.Dict{}, Topic: "u.x", Arguments: wamp.List{n}})
		}
		simrt.WaitQuiescent("c07b-burst")
		time.Sleep(time.Second)
		simrt.WaitQuiescent("c07b-burst-settled")
	}
	if c.Kept(0) {
		burst(b1)
	}
	if c.Kept(1) {
		for i := 0; i < peek; i++ {
			a.tokens <- struct{}{}
		}
		simrt.WaitQuiescent("c07b-peek")
		time.Sleep(time.Second)
		simrt.WaitQuiescent("c07b-peek-settled")
	}
	peeked := len(a.frames) - before
	if c.Kept(2) {
		burst(b2)
	}
	// reads everything that is there
	a.manual = false
	a.tokens <- struct{}{}
	simrt.WaitQuiescent("c07b-drain")
	time.Sleep(2 * time.Second)
	simrt.WaitQuiescent("c07b-drained")
	got := 0
	last := 0
	for _, f := range a.frames[before:] {
		if e, ok := f.msg.(*wamp.Event); ok {
			got++
			if k, ok := argInt(e.Arguments, 0); ok {
				if k <= last {
					c.Violf("events reached the slow client out of order: %d after %d", k, last)
				}
				last = k
			}
		} else if f.bad != "" {
			c.Violf("corrupted stream towards the slow client: %s", f.bad)
		}
	}
	// what sat buffered while the client was not reading: everything but the frames it asked for
	buffered := got - peeked
	frameLen := 40 // an EVENT frame of this workload is never shorter
	bound := q + 1 + (window+frameLen-1)/frameLen
	c.Probe("bounded_buffering_checked")
	if buffered > bound {
		c.Violf("%d messages were buffered for a client that was not reading (outbound queue %d, one frame in the sender's hands, a connection window of %d bytes: at most %d); it read %d frame(s) on request and found %d more", buffered, q, window, bound, peeked, buffered)
	}
	if n > bound+peeked && got == n {
		c.Violf("nothing was dropped for a client that was not reading: all %d events arrived", n)
	}
	c.Res.NonTrivial = got > 0
	cc.Close()
	CloseAll(c, w, false)
}
