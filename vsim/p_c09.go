package vsim

import (
	"crypto/rand"
	"crypto/sha256"
	"encoding/base64"
	"encoding/hex"
	"errors"
	"fmt"
	"strings"
	"time"

	"golang.org/x/crypto/nacl/sign"
	"golang.org/x/crypto/pbkdf2"

	"github.com/gammazero/nexus/v3/router"
	"github.com/gammazero/nexus/v3/router/auth"
	"github.com/gammazero/nexus/v3/simrt"
	"github.com/gammazero/nexus/v3/wamp"
	"github.com/gammazero/nexus/v3/wamp/crsign"
)

func init() {
	Register(&PropDef{ID: "C09", Run: runC09})
}

type c09User struct {
	name, role    string
	ticket, pw    string
	salt          string
	iters, keylen int
	pub           *[32]byte
	priv          *[64]byte
}

// c09KS is the key store of the simulated realm.
type c09KS struct{ users map[string]*c09User }

func (k *c09KS) AuthKey(authid, method string) ([]byte, error) {
	u := k.users[authid]
	if u == nil {
		return nil, errors.New("no such user")
	}
	switch method {
	case "ticket":
		return []byte(u.ticket), nil
	case "wampcra":
		if u.salt != "" {
			dk := pbkdf2.Key([]byte(u.pw), []byte(u.salt), u.iters, u.keylen, sha256.New)
			return []byte(base64.StdEncoding.EncodeToString(dk)), nil
		}
		return []byte(u.pw), nil
	case "cryptosign":
		return u.pub[:], nil
	}
	return nil, errors.New("unsupported method")
}
func (k *c09KS) PasswordInfo(authid string) (string, int, int) {
	if u := k.users[authid]; u != nil && u.salt != "" {
		return u.salt, u.keylen, u.iters
	}
	return "", 0, 0
}
func (k *c09KS) AuthRole(authid string) (string, error) {
	if u := k.users[authid]; u != nil {
		return u.role, nil
	}
	return "", errors.New("no such user")
}
func (k *c09KS) Provider() string { return "vsim-ks" }

// c09BypassKS is the key store as a BypassKeyStore: it recognises clients that present the
// tracking cookie handed out at an earlier SUCCESSFUL authentication (details.transport.auth,
// filled in by the transport - here by the harness when it attaches the connection).
type c09BypassKS struct {
	*c09KS
	cookies map[string]string // cookie -> authid it was issued to
}

func cookieOf(details wamp.Dict, key string) string {
	v, err := wamp.DictValue(details, []string{"transport", "auth", key})
	if err != nil {
		return ""
	}
	s, _ := v.(string)
	return s
}

func (k *c09BypassKS) AlreadyAuth(authid string, details wamp.Dict) bool {
	ck := cookieOf(details, "cookie")
	return ck != "" && k.cookies[ck] == authid
}

func (k *c09BypassKS) OnWelcome(authid string, welcome *wamp.Welcome, details wamp.Dict) error {
	if next := cookieOf(details, "nextcookie"); next != "" {
		k.cookies[next] = authid
	}
	return nil
}

// transcript of one honest handshake, visible to the adversary.
type c09Tap struct {
	user, method string
	chal         *wamp.Challenge
	auth         *wamp.Authenticate
}

type c09Outcome struct {
	who       string
	adversary bool
	user      string // identity it tries to assume ("" anonymous)
	method    string
	knows     bool // presented a response computed from the user's secret for THIS challenge
	intime    bool
	sess      *Sess
	welcome   *wamp.Welcome
	note      string
	local     bool
}

func respond(u *c09User, method string, ch *wamp.Challenge) *wamp.Authenticate {
	switch method {
	case "ticket":
		return &wamp.Authenticate{Signature: u.ticket, Extra: wamp.Dict{}}
	case "wampcra":
		return &wamp.Authenticate{Signature: crsign.RespondChallenge(u.pw, ch, nil), Extra: wamp.Dict{}}
	case "cryptosign":
		chs, _ := wamp.AsString(ch.Extra["challenge"])
		cb, _ := hex.DecodeString(chs)
		return &wamp.Authenticate{Signature: hex.EncodeToString(sign.Sign(nil, cb, u.priv)), Extra: wamp.Dict{}}
	}
	return &wamp.Authenticate{Signature: "x"}
}

func recvWithin(s *Sess, d time.Duration) wamp.Message {
	t := time.NewTimer(d)
	defer t.Stop()
	select {
	case m, ok := <-s.Cli.Recv():
		if !ok {
			s.RecvClosed = true
			return nil
		}
		simrt.Log("%s <- %s", s.Name, Brief(m))
		return m
	case <-t.C:
		return nil
	}
}

// runC09: interleaved handshakes of honest clients and of an adversary that
// knows no secret but sees every other handshake's transcript.
func runC09(c *Ctx) {
	g := c.Gen
	ks := &c09KS{users: map[string]*c09User{}}
	roleless := g.Chance(1, 3)
	for _, name := range []string{"alice", "bob"} {
		pub, priv, err := sign.GenerateKey(rand.Reader)
		if err != nil {
			c.Res.Tooling = err.Error()
			return
		}
		u := &c09User{name: name, role: map[string]string{"alice": "admin", "bob": "user"}[name], ticket: "tkt-" + name, pw: "pw-" + name, pub: pub, priv: priv}
		if name == "alice" {
			u.salt, u.iters, u.keylen = "salt1", 7, 16
		}
		if name == "bob" && roleless {
			// a user the key store knows no role for: the authenticator assigns the empty
			// role, and that - not whatever the client wrote into HELLO - is the session's role
			u.role = ""
		}
		ks.users[name] = u
	}
	// in a third of the runs the key store recognises tracking cookies (BypassKeyStore)
	bypass := g.Chance(1, 3)
	var store auth.KeyStore = ks
	if bypass {
		store = &c09BypassKS{c09KS: ks, cookies: map[string]string{}}
	}
	transportOf := func(cookie, next string) wamp.Dict {
		if !bypass {
			return nil
		}
		return wamp.Dict{"auth": wamp.Dict{"cookie": cookie, "nextcookie": next}}
	}
	authTO := time.Duration([]int{1, 2, 5, 30, 60}[g.Intn(5)]) * time.Second
	allMethods := []string{"ticket", "wampcra", "cryptosign"}
	var methods []string
	var authrs []auth.Authenticator
	for _, m := range allMethods {
		if g.Chance(2, 3) {
			methods = append(methods, m)
			switch m {
			case "ticket":
				authrs = append(authrs, auth.NewTicketAuthenticator(store, authTO))
			case "wampcra":
				authrs = append(authrs, auth.NewCRAuthenticator(store, authTO))
			case "cryptosign":
				authrs = append(authrs, auth.NewCryptoSignAuthenticator(store, authTO))
			}
		}
	}
	anon := g.Bool()
	rc := &router.RealmConfig{URI: "r1", AnonymousAuth: anon, Authenticators: authrs, RequireLocalAuth: g.Chance(1, 3), AllowDisclose: true}
	cfg := &router.Config{RealmConfigs: []*router.RealmConfig{rc}}
	template := g.Chance(1, 4)
	if template {
		t := *rc
		cfg.RealmTemplate = &t
	}
	// in a fifth of the other runs an operator replaces the realm while handshakes are pending:
	// RemoveRealm, then AddRealm under the same URI with every secret rotated
	swap := !template && g.Chance(1, 5)
	swapYields, swapDelay := g.Intn(120), []time.Duration{0, 0, time.Millisecond, authTO / 2, authTO}[g.Intn(5)]
	w, err := NewWorld(c.S, cfg)
	if err != nil {
		c.Res.Tooling = "NewRouter: " + err.Error()
		return
	}
	c.W = w
	// observer: an in-process, trusted session (joins before anything else)
	obs := w.NewSess("obs", "r1", true, 64, wamp.Dict{"authmethods": wamp.List{"anonymous"}})
	if rc.RequireLocalAuth && !anon {
		// the observer needs some way in: give it bob's ticket if ticket auth exists, else skip identity queries
		obs = nil
	}
	if swap {
		obs = nil // it would be thrown out with the realm
	}
	if obs != nil {
		if !obs.Join() {
			obs = nil
		} else {
			obs.Send(&wamp.Subscribe{Request: obs.NextReq(), Options: wamp.Dict{}, Topic: "wamp.session.on_join"})
			obs.Send(&wamp.Subscribe{Request: obs.NextReq(), Options: wamp.Dict{"match": "prefix"}, Topic: "t."})
		}
	}
	simrt.WaitQuiescent("setup")

	var taps []*c09Tap
	var outs []*c09Outcome
	nh := g.Range(1, 3)
	na := g.Range(1, 3)
	type plan struct {
		adversary bool
		user      string
		method    string
		kind      int
		delay     time.Duration
		forged    wamp.Dict
		local     bool
		yields    int
	}
	var plans []plan
	forge := func() wamp.Dict {
		d := wamp.Dict{}
		if g.Chance(1, 2) {
			d["authrole"] = g.Pick("admin", "root", "trusted")
		}
		if g.Chance(1, 3) {
			d["authprovider"] = "ldap"
		}
		if g.Chance(1, 3) {
			d["authmethod"] = "magic"
		}
		if g.Chance(1, 3) {
			d["session"] = 12345
		}
		if g.Chance(1, 4) {
			d["transport"] = wamp.Dict{"auth": wamp.Dict{"cookie": "forged"}}
		}
		return d
	}
	pickMethod := func() string {
		if len(methods) == 0 || g.Chance(1, 6) {
			return allMethods[g.Intn(3)] // possibly not configured
		}
		return methods[g.Intn(len(methods))]
	}
	for i := 0; i < nh; i++ {
		p := plan{user: g.Pick("alice", "bob"), method: pickMethod(), kind: g.Weighted(8, 2, 2), forged: forge(), local: g.Chance(1, 4) && !swap, yields: g.Intn(40)}
		// kind 0: correct response; 1: wrong secret; 2: correct but possibly late
		if p.kind == 2 {
			p.delay = time.Duration(g.Range(0, 2*int(authTO/time.Millisecond))) * time.Millisecond
		}
		plans = append(plans, p)
	}
	for i := 0; i < na; i++ {
		p := plan{adversary: true, user: g.Pick("alice", "bob"), method: pickMethod(), kind: g.Intn(8), forged: forge(), yields: g.Intn(60)}
		if bypass && g.Chance(1, 3) {
			p.kind = 8
		}
		plans = append(plans, p)
	}
	var sample []string
	for i, p := range plans {
		if !c.Kept(i) {
			continue
		}
		who := "honest"
		if p.adversary {
			who = "adversary"
		}
		sample = append(sample, fmt.Sprintf("%s(%s,%s,kind=%d,delay=%v,forged=%s,local=%v)", who, p.user, p.method, p.kind, p.delay, CanonVal(p.forged), p.local))
	}
	c.Res.NOps = len(plans)
	c.Res.Sample = fmt.Sprintf("methods=%v anon=%v localauth=%v timeout=%v template=%v | %s", methods, anon, rc.RequireLocalAuth, authTO, template, strings.Join(sample, " ; "))
	c.Res.Shape = fmt.Sprintf("%x", hashStr(c.Res.Sample)^c.Spec.SchedSeed)

	configured := func(m string) bool { return contains(methods, m) }
	swapDone := make(chan struct{})
	if swap {
		simrt.Go("op:swap", func() {
			defer close(swapDone)
			for k := 0; k < swapYields; k++ {
				simrt.Yield("swapwait")
			}
			if swapDelay > 0 {
				time.Sleep(swapDelay)
			}
			c.Fault("realm_replaced_during_handshakes")
			w.R.RemoveRealm("r1")
			ks2 := &c09KS{users: map[string]*c09User{}}
			for name, u := range ks.users {
				pub, priv, _ := sign.GenerateKey(rand.Reader)
				ks2.users[name] = &c09User{name: name, role: u.role, ticket: "rotated-" + name, pw: "rotated-" + name, pub: pub, priv: priv}
			}
			var a2 []auth.Authenticator
			for _, m := range methods {
				switch m {
				case "ticket":
					a2 = append(a2, auth.NewTicketAuthenticator(ks2, authTO))
				case "wampcra":
					a2 = append(a2, auth.NewCRAuthenticator(ks2, authTO))
				case "cryptosign":
					a2 = append(a2, auth.NewCryptoSignAuthenticator(ks2, authTO))
				}
			}
			if err := w.R.AddRealm(&router.RealmConfig{URI: "r1", Authenticators: a2, AllowDisclose: true}); err != nil {
				c.Violf("AddRealm after RemoveRealm failed: %v", err)
			}
		})
	} else {
		close(swapDone)
	}
	done := make(chan int)
	running := 0
	for i, p := range plans {
		if !c.Kept(i) {
			continue
		}
		running++
		name := fmt.Sprintf("h%d", i)
		if p.adversary {
			name = fmt.Sprintf("adv%d", i)
		}
		s := w.NewSess(name, "r1", p.local && !p.adversary, 8, nil)
		out := &c09Outcome{who: name, adversary: p.adversary, user: p.user, method: p.method, sess: s, local: p.local && !p.adversary}
		outs = append(outs, out)
		simrt.Go("hs:"+name, func() {
			defer func() { done <- i }()
			for k := 0; k < p.yields; k++ {
				simrt.Yield("hswait")
			}
			s.StartAttach(transportOf("", "next-"+name))
			hello := wamp.Dict{"roles": AllFeatures(), "authmethods": wamp.List{p.method}, "authid": p.user}
			for k, v := range p.forged {
				hello[k] = v
			}
			u := ks.users[p.user]
			finish := func() {
				// WELCOME / ABORT / silence
				m := recvWithin(s, 3*time.Minute)
				if wl, ok := m.(*wamp.Welcome); ok {
					out.welcome = wl
					s.Welcome, s.ID, s.Joined = wl, wl.ID, true
					s.StartDrain()
				} else if ab, ok := m.(*wamp.Abort); ok {
					s.Abort = ab
				}
			}
			if !p.adversary {
				if !s.Send(&wamp.Hello{Realm: "r1", Details: hello}) {
					return
				}
				if s.Local && !rc.RequireLocalAuth {
					out.knows, out.intime = true, true // trusted in-process client: no challenge
					finish()
					return
				}
				m := recvWithin(s, 3*time.Minute)
				ch, ok := m.(*wamp.Challenge)
				if !ok {
					if ab, isAb := m.(*wamp.Abort); isAb {
						s.Abort = ab
					}
					if wl, isW := m.(*wamp.Welcome); isW {
						out.welcome = wl
						out.note = "welcomed without challenge"
						s.Welcome, s.ID, s.Joined = wl, wl.ID, true
						s.StartDrain()
					}
					return
				}
				t0 := c.S.Elapsed()
				if p.delay > 0 {
					time.Sleep(p.delay)
				}
				rsp := respond(u, p.method, ch)
				if p.kind == 1 {
					bad := *u
					bad.ticket, bad.pw = "wrong", "wrong"
					_, bad.priv, _ = sign.GenerateKey(rand.Reader)
					rsp = respond(&bad, p.method, ch)
				} else {
					out.knows = true
				}
				out.intime = c.S.Elapsed()-t0 < authTO
				taps = append(taps, &c09Tap{user: p.user, method: p.method, chal: ch, auth: rsp})
				if !s.Send(rsp) {
					return
				}
				finish()
				if bypass && out.welcome != nil && p.yields%3 == 0 && p.method != "cryptosign" {
					// comes back on a new connection with the cookie its successful handshake was handed:
					// recognised without a challenge - under the same, router-assigned identity
					c.Probe("honest_relogin_by_cookie")
					s2 := w.NewSess(name+"b", "r1", false, 8, nil)
					s2.StartAttach(transportOf("next-"+name, "next-"+name+"b"))
					out2 := &c09Outcome{who: name + "b", user: p.user, method: p.method, sess: s2, knows: true, intime: true}
					outs = append(outs, out2)
					if !s2.Send(&wamp.Hello{Realm: "r1", Details: hello}) {
						return
					}
					m := recvWithin(s2, 3*time.Minute)
					if ch2, ok := m.(*wamp.Challenge); ok {
						s2.Send(respond(u, p.method, ch2))
						m = recvWithin(s2, 3*time.Minute)
					} else if _, ok := m.(*wamp.Welcome); ok {
						c.Probe("welcomed_by_cookie_without_challenge")
					}
					if wl, ok := m.(*wamp.Welcome); ok {
						out2.welcome = wl
						s2.Welcome, s2.ID, s2.Joined = wl, wl.ID, true
						s2.StartDrain()
					} else if ab, ok := m.(*wamp.Abort); ok {
						s2.Abort = ab
					}
				}
				return
			}
			// ---- adversary ----
			switch p.kind {
			case 0: // first message is not HELLO
				c.Fault("adv_first_message_not_hello")
				s.Send(HostileMessage(g, nil))
				finish()
			case 1: // unknown / empty realm, or no roles
				c.Fault("adv_bad_realm_or_roles")
				switch g.Intn(3) {
				case 0:
					if !template {
						s.Send(&wamp.Hello{Realm: "nosuchrealm", Details: hello})
						out.note = "nosuchrealm"
					} else {
						s.Send(&wamp.Hello{Realm: "", Details: hello})
					}
				case 1:
					s.Send(&wamp.Hello{Realm: "", Details: hello})
				case 2:
					delete(hello, "roles")
					s.Send(&wamp.Hello{Realm: "r1", Details: hello})
					out.note = "noroles"
				}
				finish()
			case 2: // silence after CHALLENGE (time-out)
				c.Fault("adv_timeout")
				s.Send(&wamp.Hello{Realm: "r1", Details: hello})
				finish()
				if out.welcome == nil {
					finish()
				}
			case 3: // garbage response
				c.Fault("adv_garbage_response")
				s.Send(&wamp.Hello{Realm: "r1", Details: hello})
				if _, ok := recvWithin(s, 3*time.Minute).(*wamp.Challenge); ok {
					s.Send(&wamp.Authenticate{Signature: g.Pick("", "x", "tkt-", "00", strings.Repeat("ab", 96)), Extra: wamp.Dict{}})
				}
				finish()
			case 4, 5, 6: // replay a captured response of the same user and method
				c.Fault("adv_replay")
				s.Send(&wamp.Hello{Realm: "r1", Details: hello})
				m := recvWithin(s, 3*time.Minute)
				if _, ok := m.(*wamp.Challenge); !ok {
					if wl, isW := m.(*wamp.Welcome); isW {
						out.welcome = wl
						s.Welcome, s.ID, s.Joined = wl, wl.ID, true
						s.StartDrain()
					}
					return
				}
				// wait (bounded) until a suitable transcript has been seen on the wire
				var tap *c09Tap
				for k := 0; k < 200 && tap == nil; k++ {
					for _, t := range taps {
						if t.user == p.user && t.method == p.method {
							tap = t
						}
					}
					if tap == nil {
						if k%20 == 19 {
							time.Sleep(authTO / 20)
						} else {
							simrt.Yield("advwait")
						}
					}
				}
				if tap == nil {
					s.Send(&wamp.Authenticate{Signature: "none-captured", Extra: wamp.Dict{}})
				} else {
					c.Probe("replayed_captured_response")
					if p.method == "ticket" {
						// a ticket is a bearer secret, never shown to the adversary
						s.Send(&wamp.Authenticate{Signature: "not-the-ticket", Extra: wamp.Dict{}})
					} else {
						s.Send(&wamp.Authenticate{Signature: tap.auth.Signature, Extra: tap.auth.Extra})
					}
				}
				finish()
			case 8: // fails a handshake of its own, then comes back with the cookie that handshake was handed
				c.Fault("adv_cookie_of_failed_handshake")
				s.Send(&wamp.Hello{Realm: "r1", Details: hello})
				if _, ok := recvWithin(s, 3*time.Minute).(*wamp.Challenge); ok {
					s.Send(&wamp.Authenticate{Signature: "no-idea", Extra: wamp.Dict{}})
				}
				finish()
				if out.welcome != nil || !bypass {
					return
				}
				s2 := w.NewSess(name+"b", "r1", false, 8, nil)
				s2.StartAttach(transportOf("next-"+name, "next-"+name+"b"))
				if !s2.Send(&wamp.Hello{Realm: "r1", Details: hello}) {
					return
				}
				out.sess = s2
				out.note = "came back with the cookie of its failed handshake"
				m := recvWithin(s2, 3*time.Minute)
				if _, ok := m.(*wamp.Challenge); ok {
					s2.Send(&wamp.Authenticate{Signature: "no-idea", Extra: wamp.Dict{}})
					m = recvWithin(s2, 3*time.Minute)
				}
				if wl, ok := m.(*wamp.Welcome); ok {
					out.welcome = wl
					s2.Welcome, s2.ID, s2.Joined = wl, wl.ID, true
					s2.StartDrain()
				} else if ab, ok := m.(*wamp.Abort); ok {
					s2.Abort = ab
				}
			case 7: // anonymous with forged identity
				c.Fault("adv_anonymous_forged_identity")
				hello["authmethods"] = wamp.List{"anonymous"}
				out.method = "anonymous"
				out.user = ""
				s.Send(&wamp.Hello{Realm: "r1", Details: hello})
				finish()
			}
		})
	}
	for i := 0; i < running; i++ {
		<-done
	}
	<-swapDone
	simrt.WaitQuiescent("handshakes-done")
	c.Res.NonTrivial = c.Res.Probes["replayed_captured_response"] > 0 || running > 1
	if swap {
		// Nobody knows the rotated secrets, and the new realm admits nobody anonymously: whoever
		// is attached to it now - apart from trusted in-process sessions - was let in on the
		// strength of an authentication against the realm that was removed.
		o2 := w.NewSess("obs2", "r1", true, 64, nil)
		if o2.Join() {
			req := o2.NextReq()
			o2.Send(&wamp.Call{Request: req, Options: wamp.Dict{}, Procedure: "wamp.session.list"})
			res, _ := o2.Await(time.Second, func(m wamp.Message) bool { r, ok := m.(*wamp.Result); return ok && r.Request == req }).(*wamp.Result)
			if res != nil {
				c.Probe("realm_replaced_checked")
				for _, id := range idsOf(arg0(res)) {
					for _, o := range outs {
						if o.welcome != nil && o.welcome.ID == id && !o.local {
							c.Violf("session %d of %s is attached to the realm that replaced r1 although it authenticated (as %q by %s) against the removed realm's credentials only", id, o.who, o.user, o.method)
						}
					}
				}
			}
		}
	}

	// ---- oracle ----
	for _, o := range outs {
		if o.welcome == nil {
			if !o.adversary && o.knows && o.intime && configured(o.method) && o.sess.Abort != nil {
				c.Probe("honest_rejected")
				if debugC09 {
					c.Violf("DEBUG honest rejected: %s %s %s abort=%s", o.who, o.user, o.method, Brief(o.sess.Abort))
				}
			}
			continue
		}
		d := o.welcome.Details
		str := func(k string) string { v, _ := wamp.AsString(d[k]); return v }
		if o.adversary {
			// without a secret only anonymous authentication can succeed
			if !anon || str("authmethod") != "anonymous" {
				c.Violf("adversary %s (knows no secret) was sent WELCOME: authid=%q authrole=%q authmethod=%q (tried %s as %q: %s)", o.who, str("authid"), str("authrole"), str("authmethod"), o.method, o.user, o.note)
				continue
			}
		} else if !o.local || rc.RequireLocalAuth {
			if str("authmethod") == "anonymous" {
				// the honest client's method was not configured and anonymous was: fine, but then as nobody
				if str("authrole") != "anonymous" {
					c.Violf("anonymous session got authrole %q", str("authrole"))
				}
			} else {
				if !o.knows {
					c.Violf("client %s presented a wrong secret for %q (%s) and was sent WELCOME", o.who, o.user, o.method)
				}
				if !o.intime {
					c.Violf("client %s answered the challenge after the %v time-out and was sent WELCOME", o.who, authTO)
				}
				if !configured(str("authmethod")) {
					c.Violf("session authenticated with method %q which the realm does not have", str("authmethod"))
				}
			}
		}
		// identity comes from router and authenticator
		wantID, wantRole, wantMethod, wantProv := "", "", "", ""
		switch {
		case o.local && !rc.RequireLocalAuth:
			wantID, wantRole, wantMethod, wantProv = o.user, "trusted", "local", "static" // trusted in-process client may name itself
		case str("authmethod") == "anonymous":
			wantID, wantRole, wantMethod, wantProv = "*", "anonymous", "anonymous", "static"
		default:
			wantID, wantRole, wantMethod, wantProv = o.user, ks.users[o.user].role, o.method, "vsim-ks"
		}
		check := func(where string, det wamp.Dict) {
			gs := func(k string) string { v, _ := wamp.AsString(det[k]); return v }
			if wantID != "*" && gs("authid") != wantID {
				c.Violf("%s of %s shows authid %q, assigned %q", where, o.who, gs("authid"), wantID)
			}
			if wantID == "*" && o.user != "" && gs("authid") == o.user {
				c.Violf("%s of anonymous %s shows the client-chosen authid %q", where, o.who, gs("authid"))
			}
			if gs("authrole") != wantRole {
				c.Violf("%s of %s shows authrole %q, assigned %q", where, o.who, gs("authrole"), wantRole)
			}
			if gs("authmethod") != wantMethod {
				c.Violf("%s of %s shows authmethod %q, assigned %q", where, o.who, gs("authmethod"), wantMethod)
			}
			if gs("authprovider") != wantProv {
				c.Violf("%s of %s shows authprovider %q, assigned %q", where, o.who, gs("authprovider"), wantProv)
			}
			if sid, _ := wamp.AsID(det["session"]); where != "WELCOME" && sid != o.welcome.ID {
				c.Violf("%s of %s shows session %d, router assigned %d", where, o.who, sid, o.welcome.ID)
			}
			if tr, ok := wamp.AsDict(det["transport"]); ok {
				if _, leak := tr["auth"]; leak {
					c.Violf("%s of %s exposes transport.auth", where, o.who)
				}
			}
		}
		check("WELCOME", d)
		if obs != nil {
			req := obs.NextReq()
			obs.Send(&wamp.Call{Request: req, Options: wamp.Dict{}, Procedure: "wamp.session.get", Arguments: wamp.List{o.welcome.ID}})
			simrt.WaitQuiescent("get")
			found := false
			for _, r := range obs.Take() {
				switch x := r.Msg.(type) {
				case *wamp.Result:
					if x.Request == req && len(x.Arguments) > 0 {
						det, _ := wamp.AsDict(x.Arguments[0])
						check("wamp.session.get", det)
						found = true
					}
				case *wamp.Event:
					if len(x.Arguments) > 0 {
						if det, ok := wamp.AsDict(x.Arguments[0]); ok {
							if sid, _ := wamp.AsID(det["session"]); sid == o.welcome.ID {
								check("on_join", det)
							}
						}
					}
				}
			}
			if !found && !o.sess.RecvClosed {
				c.Violf("welcomed session %s (%d) is unknown to wamp.session.get", o.who, o.welcome.ID)
			}
		}
	}
	// rejected peers are not attached and what they send has no effect
	if obs != nil {
		req := obs.NextReq()
		obs.Send(&wamp.Call{Request: req, Options: wamp.Dict{}, Procedure: "wamp.session.count"})
		simrt.WaitQuiescent("count")
		welcomed := 1
		for _, o := range outs {
			if o.welcome != nil && !o.sess.RecvClosed {
				welcomed++
			}
		}
		for _, r := range obs.Take() {
			if x, ok := r.Msg.(*wamp.Result); ok && x.Request == req && len(x.Arguments) > 0 {
				if n, _ := wamp.AsInt64(x.Arguments[0]); int(n) != welcomed {
					c.Violf("wamp.session.count is %d but %d sessions were welcomed and are attached", n, welcomed)
				}
			}
		}
		for _, o := range outs {
			if o.welcome == nil && !o.sess.CliClosed {
				o.sess.TrySendFor(&wamp.Publish{Request: 99, Options: wamp.Dict{}, Topic: "t.rejected", Arguments: wamp.List{o.who}}, time.Second)
			}
		}
		simrt.WaitQuiescent("rejected-publish")
		for _, r := range obs.Take() {
			if ev, ok := r.Msg.(*wamp.Event); ok {
				if tp, _ := wamp.AsString(ev.Details["topic"]); tp == "t.rejected" {
					c.Violf("a message of rejected peer %v was routed", ev.Arguments)
				}
			}
		}
	}
	CloseAll(c, w, false)
}
