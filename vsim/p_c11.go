package vsim

import (
	"fmt"

	"github.com/gammazero/nexus/v3/router"
	"github.com/gammazero/nexus/v3/router/auth"
	"github.com/gammazero/nexus/v3/simrt"
	"github.com/gammazero/nexus/v3/wamp"
)

func init() {
	Register(&PropDef{ID: "C11", Run: func(c *Ctx) {
		if isLinRun(c.Spec.GenSeed) {
			// concurrent histories in two or three realms of one router at once, each
			// checked for linearizability against its own model
			runLinRealms(c, linFlavour(c.Gen.Intn(3)), c.Gen.Range(2, 3))
			return
		}
		runC11(c)
	}, Config: seqOrLinConfig})
}

// runC11: the same scenario is run in lock-step in two or three realms with
// identical URIs, request ids and (by construction) colliding subscription,
// registration and invocation ids; cross-realm attempts use the other realm's
// ids; a third realm is added and removed at run time. Each realm has its own
// model; every message at a realm-A session must be predicted by realm A's
// model alone.
func runC11(c *Ctx) {
	g := c.Gen
	strict := g.Chance(1, 5)
	allowDisclose := g.Bool()
	history := g.Bool()
	reuse := g.Bool() // an application that fills in one RealmConfig value again and again
	// without event history (whose set-up asks the realm questions an Authorizer might refuse):
	// every realm its own Authorizer - or none - each deciding differently
	withAuthz := !history && g.Bool()
	azSeed := c.Spec.GenSeed
	mkAuthz := func(uri string) (*TableAuthz, bool) {
		if uri == "rt" {
			uri = "template" // a realm made from the template has the template's Authorizer
		}
		if !withAuthz || hashStr(uri)%3 == 0 {
			return nil, false
		}
		return &TableAuthz{Seed: Mix(azSeed, hashStr(uri)), DenyPerm: 150 + int(hashStr(uri)%150), FailPerm: 40, RewrPerm: 0}, hashStr(uri)%2 == 0
	}
	var first *router.RealmConfig
	mk := func(uri string) (*router.RealmConfig, *MRealm) {
		if reuse && uri == "r3" && first != nil {
			// the same struct as r1's, changed in place: r1 must not notice
			first.URI = "r3"
			first.EnableMetaKill = false
			m := NewMRealm(uri, strict, allowDisclose)
			m.NoKill = true
			if az, local := mkAuthz(uri); az != nil {
				first.Authorizer, first.RequireLocalAuthz = az, local
				m.Authz, m.LocalAuthz = az, local
			} else {
				first.Authorizer, first.RequireLocalAuthz = nil, false
			}
			if history {
				m.ConfigHistory("a.b", "exact", 3)
				m.ConfigHistory("a.", "prefix", 2)
			}
			c.Probe("realm_config_struct_reused")
			return first, m
		}
		rc := &router.RealmConfig{URI: wamp.URI(uri), StrictURI: strict, AllowDisclose: allowDisclose, AnonymousAuth: true, EnableMetaKill: true,
			Authenticators: []auth.Authenticator{&StaticAuth{Roles: seqRoles}}}
		m := NewMRealm(uri, strict, allowDisclose)
		if az, local := mkAuthz(uri); az != nil {
			rc.Authorizer, rc.RequireLocalAuthz = az, local
			m.Authz, m.LocalAuthz = az, local
			c.Probe("realm_with_own_authorizer")
		}
		if history {
			rc.TopicEventHistoryConfigs = []*router.TopicEventHistoryConfig{{Topic: "a.b", MatchPolicy: "exact", Limit: 3}, {Topic: "a.", MatchPolicy: "prefix", Limit: 2}}
			m.ConfigHistory("a.b", "exact", 3)
			m.ConfigHistory("a.", "prefix", 2)
		}
		return rc, m
	}
	c1, m1 := mk("r1")
	first = c1
	c2, m2 := mk("r2")
	cfg := &router.Config{RealmConfigs: []*router.RealmConfig{c1, c2}}
	template := g.Chance(1, 3)
	if template {
		t, _ := mk("template")
		cfg.RealmTemplate = t
	}
	w, err := NewWorld(c.S, cfg)
	if err != nil {
		c.Res.Tooling = "NewRouter: " + err.Error()
		return
	}
	c.W = w
	k := g.Range(2, 4) // sessions per realm
	n := g.Range(10, 30)
	if c.Thorough {
		n = g.Range(20, 80)
	}
	base := genSeqOps(g, seqC11, k, n, c.Thorough)
	// replicate in lock-step for r1 and r2 (and r3 while it exists)
	var ops []SOp
	third := "r3"
	if template && g.Bool() {
		third = "rt" // comes into existence through the template when first asked for
	}
	addAt, rmAt := g.Intn(len(base)), g.Intn(len(base))
	for i, b := range base {
		if i == addAt && third == "r3" {
			ops = append(ops, SOp{Kind: "addrealm", Realm: "r3"})
		}
		for ri, realm := range []string{"r1", "r2", third} {
			o := b
			o.Slot = b.Slot + ri*k
			if o.Kind == "join" {
				o.Realm = realm
			}
			ops = append(ops, o)
		}
		if i == rmAt && rmAt > addAt {
			ops = append(ops, SOp{Kind: "rmrealm", Realm: third})
		}
	}
	c.Res.NOps = len(ops)
	c.Res.Sample = fmt.Sprintf("strict=%v disclose=%v third=%s k=%d | %s", strict, allowDisclose, third, k, SOpsSample(ops, c, 45))
	c.Res.Shape = fmt.Sprintf("%x", hashStr(c.Res.Sample))
	q := NewSeq(c, w)
	q.MetaKill = true
	q.MkRealm = mk
	q.AddRealm(m1)
	q.AddRealm(m2)
	for i, op := range ops {
		if !c.Kept(i) {
			continue
		}
		if op.Kind == "join" && op.Realm == "rt" && q.Realms["rt"] == nil && template {
			_, mt := mk("rt")
			q.AddRealm(mt)
		}
		op.Opts = q.resolveOpts(op.Opts)
		q.Exec(op)
		if len(c.Res.Violations) > 0 || len(w.Viol) > 0 {
			break
		}
	}
	c.Res.NonTrivial = c.Res.Probes["publish_multi_recipient"] > 0 || c.Res.Probes["call_routed"] > 2
	simrt.WaitQuiescent("end")
	CloseAll(c, w, false)
}
