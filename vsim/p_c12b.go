package vsim

import (
	"fmt"
	"time"

	"github.com/gammazero/nexus/v3/router"
	"github.com/gammazero/nexus/v3/simrt"
	"github.com/gammazero/nexus/v3/wamp"
)

// runC12b: identity disclosure under faults. Two to four callees share one registration
// (policy drawn); each announces caller_identification or not, registers with
// disclose_caller or not; some of them stop reading behind a tiny queue that is then filled
// with events, so that an INVOCATION meant for them cannot be queued - and whatever the
// dealer does about that (refuse, or pick somebody else) the INVOCATION that does reach a
// callee may show the caller's identity only by that callee's own standing. Callers call with
// and without disclose_me. Oracle: the disclosure monitor, and no panic / no wedge.
func runC12b(c *Ctx) {
	g := c.Gen
	allow := g.Chance(3, 4)
	rc := &router.RealmConfig{URI: "r1", AnonymousAuth: true, AllowDisclose: allow}
	w, err := NewWorld(c.S, &router.Config{RealmConfigs: []*router.RealmConfig{rc}})
	if err != nil {
		c.Res.Tooling = "NewRouter: " + err.Error()
		return
	}
	c.W = w
	nce := g.Range(2, 4)
	nca := g.Range(1, 2)
	policy := g.Pick("roundrobin", "first", "last", "random")
	regDisclose := g.Chance(1, 4) // the registration is created with disclose_caller by its first callee
	var ops []TOp
	type ce struct{ ident, blocked bool }
	var ces []ce
	for i := 0; i < nce; i++ {
		x := ce{ident: g.Bool(), blocked: g.Chance(2, 5)}
		ces = append(ces, x)
		o := TOp{Sess: i, Kind: tReg, URI: "p.shared", Invoke: policy, WaitAck: true}
		if regDisclose && i == 0 {
			o.Opts = wamp.Dict{"disclose_caller": true}
		}
		ops = append(ops, TOp{Sess: i, Kind: tSub, URI: "t.fill", WaitAck: true}, o)
	}
	t0 := time.Second
	at := func(s int, d time.Duration) TOp { return TOp{Sess: s, Kind: tSleep, Until: t0 + d} }
	for i, x := range ces {
		if x.blocked {
			ops = append(ops, at(i, 0), TOp{Sess: i, Kind: tStall})
		}
	}
	for k := 0; k < nca; k++ {
		s := nce + k
		ops = append(ops, at(s, time.Second))
		for j := g.Range(2, 6); j > 0; j-- {
			ops = append(ops, TOp{Sess: s, Kind: tPub, URI: "t.fill", Opts: wamp.Dict{}}) // fills the queues of those not reading
		}
		for j := g.Range(2, 6); j > 0; j-- {
			o := TOp{Sess: s, Kind: tCall, URI: "p.shared", Opts: wamp.Dict{}}
			if g.Chance(2, 3) {
				o.Opts["disclose_me"] = true
			}
			ops = append(ops, o)
			if g.Chance(1, 3) {
				ops = append(ops, TOp{Sess: s, Kind: tPub, URI: "t.fill", Opts: wamp.Dict{}})
			}
		}
	}
	c.Res.NOps = len(ops)
	c.Res.Sample = fmt.Sprintf("allow=%v policy=%s regdisclose=%v callees=%v | %s", allow, policy, regDisclose, ces, opsSample(ops, c, 0, 24))
	c.Res.Shape = fmt.Sprintf("%x", hashStr(c.Res.Sample)^c.Spec.SchedSeed)
	var clients []*TClient
	for i := 0; i < nce+nca; i++ {
		hello := wamp.Dict{"roles": AllFeatures()}
		qsize := 64
		if i < nce {
			if !ces[i].ident {
				delete(hello["roles"].(wamp.Dict)["callee"].(wamp.Dict)["features"].(wamp.Dict), "caller_identification")
			}
			if ces[i].blocked {
				qsize = g.Range(1, 3)
			}
		}
		s := w.NewSess(fmt.Sprintf("s%d", i), "r1", g.Bool(), qsize, hello)
		cl := NewTClient(s, BehEcho, 0)
		if !s.Join() {
			c.Res.Tooling = "session could not join"
			return
		}
		clients = append(clients, cl)
	}
	RunTraffic(c, clients, ops, 0)
	simrt.WaitQuiescent("c12b-traffic-done")
	c.DisarmDrops()
	for _, cl := range clients {
		cl.Resume()
	}
	time.Sleep(3 * time.Minute)
	simrt.WaitQuiescent("c12b-settled")
	CheckDisclosure(c, clients, allow)
	c.Res.NonTrivial = c.Res.Probes["disclosed_invocation_checked"] > 0
	HealthProbe(c, w, "r1", "c12b", 100*time.Second)
	CloseAll(c, w, false)
}
