package vsim

import (
	"bytes"
	"fmt"
	"strings"
	"time"

	"github.com/gammazero/nexus/v3/router"
	"github.com/gammazero/nexus/v3/simrt"
	"github.com/gammazero/nexus/v3/transport"
	"github.com/gammazero/nexus/v3/transport/serialize"
	"github.com/gammazero/nexus/v3/wamp"
)

func init() {
	Register(&PropDef{ID: "C15a", Run: runC15a})
	// C15 = (a) wire-level framing against a hand-written rawsocket client,
	// (b) the model-checked routing scenarios replayed over rawsocket and
	// websocket with every serializer; alternating by seed.
	Register(&PropDef{ID: "C15", Run: func(c *Ctx) {
		if c.Spec.GenSeed%2 == 0 {
			c.Probe("part_a_framing")
			runC15a(c)
		} else {
			c.Probe("part_b_transparency")
			runSeq(c, seqC15)
		}
	}, Config: seqConfig})
}

type rawFrame struct {
	typ     byte
	payload []byte
	msg     wamp.Message
	bad     string
}

// rawActor speaks the rawsocket wire format by hand over a SimConn.
type rawActor struct {
	c          *Ctx
	conn       *SimConn
	ser        serialize.Serializer
	frames     []rawFrame // frames received from the router, in order
	eof        bool
	done       chan struct{}
	stallUntil time.Duration // the actor does not read before this virtual time (a client that stops reading for a while)
	manual     bool          // the reader takes one token per frame
	tokens     chan struct{}
}

func (a *rawActor) readFull(p []byte) bool {
	n := 0
	for n < len(p) {
		if d := a.stallUntil - a.conn.c.S.Elapsed(); d > 0 {
			time.Sleep(d)
		}
		k, err := a.conn.Read(p[n:])
		n += k
		if err != nil {
			return false
		}
	}
	return true
}

func (a *rawActor) readLoop() {
	defer close(a.done)
	for {
		if a.manual {
			<-a.tokens
		}
		var h [4]byte
		if !a.readFull(h[:]) {
			a.eof = true
			simrt.Log("raw actor: stream ended")
			return
		}
		n := int(h[1])<<16 | int(h[2])<<8 | int(h[3])
		p := make([]byte, n)
		if !a.readFull(p) {
			a.eof = true
			a.frames = append(a.frames, rawFrame{typ: h[0], bad: "stream ended inside a frame"})
			return
		}
		f := rawFrame{typ: h[0], payload: p}
		switch h[0] {
		case 0:
			m, err := a.ser.Deserialize(p)
			if err != nil {
				f.bad = "undecodable message frame: " + err.Error()
			} else {
				f.msg = m
				simrt.Log("raw actor <- %s", Brief(m))
			}
		case 1, 2:
		default:
			f.bad = fmt.Sprintf("frame of type %d from the router", h[0])
		}
		a.frames = append(a.frames, f)
	}
}

func frame(typ byte, p []byte) []byte {
	return append([]byte{typ, byte(len(p) >> 16), byte(len(p) >> 8), byte(len(p))}, p...)
}

func (a *rawActor) send(m wamp.Message) bool {
	b, err := a.ser.Serialize(m)
	if err != nil {
		return false
	}
	_, err = a.conn.Write(frame(0, b))
	return err == nil
}

// runC15a: rawsocket framing against a hand-written wire-level client:
// handshake variants, PING/PONG interleaved with traffic in both directions,
// fragmentation and tiny windows, messages around the announced limits,
// undecodable, oversize and reserved-type frames, resets.
func runC15a(c *Ctx) {
	g := c.Gen
	rc := &router.RealmConfig{URI: "r1", AnonymousAuth: true, AllowDisclose: true}
	w, err := NewWorld(c.S, &router.Config{RealmConfigs: []*router.RealmConfig{rc}})
	if err != nil {
		c.Res.Tooling = "NewRouter: " + err.Error()
		return
	}
	c.W = w
	// a well-behaved in-process session producing traffic towards the actor
	loc := w.NewSess("loc", "r1", true, 64, nil)
	if !loc.Join() {
		c.Res.Tooling = "local session could not join"
		return
	}
	loc.OnRecv = CalleeBehaviour(func(inv *wamp.Invocation) int { return BehEcho })
	loc.Send(&wamp.Register{Request: loc.NextReq(), Options: wamp.Dict{}, Procedure: "p.echo"})
	loc.Send(&wamp.Subscribe{Request: loc.NextReq(), Options: wamp.Dict{"match": "prefix"}, Topic: "t."})
	simrt.WaitQuiescent("setup")

	szIdx := g.Intn(3)
	sz := []serialize.Serialization{serialize.JSON, serialize.MSGPACK, serialize.CBOR}[szIdx]
	ser, _ := serializerOf(sz)
	cliLimExp := byte(g.Pick("\x00", "\x00", "\x01", "\x03", "\x08", "\x08", "\x0f")[0]) // announced client receive limit 2^(9+x); 8: 128 KiB, frames of more than 64 KiB fit
	cliLimit := 1 << (9 + int(cliLimExp))
	srvRecvLimit := []int{0, 512, 600, 1024, 3000, 4096, 5000}[g.Intn(7)] // also limits that are not a power of two: the announced one is the next power
	srvLimit := 1 << 24
	if srvRecvLimit > 0 {
		srvLimit = srvRecvLimit
	}
	faults := NetFaults{MaxFrag: []int{0, 1, 2, 5, 64}[g.Intn(5)], Window: []int{0, 8, 64, 600, 5000}[g.Intn(5)]}
	if g.Chance(1, 8) {
		faults.ResetAfterC = g.Range(1, 400)
	}
	if g.Chance(1, 8) {
		faults.ResetAfterS = g.Range(1, 400)
	}
	if g.Chance(1, 10) {
		faults.WriteErrS = g.Range(1, 12)
	}
	cc, sc := NewSimConnPair(c, "raw", faults)
	hsKind := g.Weighted(12, 1, 1, 1, 1) // 0 valid, 1 bad magic, 2 serializer 0 / unknown, 3 reserved bits, 4 truncated
	var attErr error
	attDone := false
	simrt.Go("attach:raw", func() {
		peer, err := transport.AcceptRawSocket(sc, w.Log, srvRecvLimit, 256)
		if err != nil {
			attErr = err
			attDone = true
			return
		}
		attErr = w.R.Attach(peer)
		attDone = true
	})
	hs := []byte{0x7f, cliLimExp<<4 | byte(szIdx+1), 0, 0}
	switch hsKind {
	case 1:
		hs[0] = byte(g.Intn(127))
		c.Fault("bad_handshake")
	case 2:
		hs[1] = cliLimExp<<4 | byte(g.Pick("\x00", "\x04", "\x0f")[0])
		c.Fault("bad_handshake")
	case 3:
		hs[2+g.Intn(2)] = byte(1 + g.Intn(255))
		c.Fault("bad_handshake")
	case 4:
		hs = hs[:g.Range(1, 3)]
		c.Fault("bad_handshake")
	}
	type step struct {
		kind    int // 0 msg, 1 ping, 2 garbage payload, 3 reserved frame type, 4 oversize, 5 local publish towards the actor (size), 6 pause, 7 call echo
		size    int
		payload []byte
	}
	var steps []step
	ns := g.Range(3, 14)
	for i := 0; i < ns; i++ {
		st := step{kind: g.Weighted(4, 6, 1, 1, 1, 6, 1, 3, 1)}
		switch st.kind {
		case 1:
			st.payload = bytes.Repeat([]byte{byte('a' + i)}, []int{0, 1, 7, 125, 300}[g.Intn(5)])
		case 2:
			st.payload = []byte{0xff, 0xfe, 0x00, '[', '{'}
		case 3:
			st.size = g.Range(3, 7)
		case 5:
			// around the limit the actor announced
			st.size = []int{10, cliLimit - 200, cliLimit - 60, cliLimit - 20, cliLimit, cliLimit + 50}[g.Intn(6)]
			if st.size < 1 || st.size > 140000 {
				st.size = []int{100, 70000, 100000}[g.Intn(3)] // (also frames that take several writes of the transport's)
			}
			if st.size > 20000 && ((faults.MaxFrag > 0 && faults.MaxFrag < 64) || (faults.Window > 0 && faults.Window < 600)) {
				st.size = 100 // (byte-wise reads of a 100 KB frame would only burn scheduling steps)
			}
		case 0:
			pow2 := 512
			for pow2 < srvLimit {
				pow2 *= 2
			}
			st.size = []int{5, srvLimit - 150, srvLimit - 40, srvLimit + 10, pow2 - 150, pow2 - 40, pow2 + 10}[g.Intn(7)]
			if st.size < 1 || st.size > 70000 {
				st.size = 5
			}
		}
		steps = append(steps, st)
	}
	c.Res.NOps = len(steps)
	var sample []string
	for i, st := range steps {
		if c.Kept(i) {
			sample = append(sample, fmt.Sprintf("%d:%d", st.kind, st.size+len(st.payload)))
		}
	}
	c.Res.Sample = fmt.Sprintf("ser=%d cliLimit=%d srvLimit=%d hs=%d faults=%+v | %s", szIdx, cliLimit, srvLimit, hsKind, faults, strings.Join(sample, " "))
	c.Res.Shape = fmt.Sprintf("%x", hashStr(c.Res.Sample)^c.Spec.SchedSeed)

	a := &rawActor{c: c, conn: cc, ser: ser, done: make(chan struct{})}
	cc.Write(hs)
	if hsKind != 0 {
		if hsKind == 4 {
			cc.Close()
		}
		simrt.WaitQuiescent("bad-handshake")
		time.Sleep(10 * time.Second)
		simrt.WaitQuiescent("bad-handshake2")
		if attDone && attErr == nil {
			c.Violf("invalid rawsocket handshake %x was accepted", hs)
		}
		cc.Close()
		HealthProbe(c, w, "r1", "hs", 0)
		CloseAll(c, w, false)
		return
	}
	var rep [4]byte
	if !a.readFull(rep[:]) {
		if faults.ResetAfterC == 0 && faults.ResetAfterS == 0 && faults.WriteErrS == 0 {
			c.Violf("valid rawsocket handshake %x got no reply", hs)
		}
		CloseAll(c, w, false)
		return
	}
	if rep[0] != 0x7f || rep[1]&0xf != byte(szIdx+1) || rep[2] != 0 || rep[3] != 0 {
		c.Violf("handshake reply %x does not agree on serializer %d", rep, szIdx+1)
	}
	if got := 1 << (9 + int(rep[1]>>4)); srvRecvLimit > 0 && got < srvRecvLimit {
		c.Violf("router announced receive limit %d below its configured %d", got, srvRecvLimit)
	}
	announcedSrv := 1 << (9 + int(rep[1]>>4))
	simrt.Go("actor:rawreader", a.readLoop)
	a.send(&wamp.Hello{Realm: "r1", Details: wamp.Dict{"roles": wamp.Dict{"subscriber": wamp.Dict{}, "publisher": wamp.Dict{}, "caller": wamp.Dict{}}}})
	a.send(&wamp.Subscribe{Request: 1, Options: wamp.Dict{"match": "prefix"}, Topic: "u."})
	simrt.WaitQuiescent("joined")

	var pings [][]byte
	expectClosed := ""
	sentToActor := 0 // publications by loc on u.* (tag order)
	var sizes []int
	req := wamp.ID(10)
	for i, st := range steps {
		if !c.Kept(i) || expectClosed != "" {
			continue
		}
		req++
		switch st.kind {
		case 0:
			// a message of a given serialized size from the actor to the router
			pad := strings.Repeat("x", st.size)
			m := &wamp.Publish{Request: req, Options: wamp.Dict{}, Topic: "t.fromactor", Arguments: wamp.List{pad}}
			b, _ := ser.Serialize(m)
			if len(b) > announcedSrv {
				expectClosed = fmt.Sprintf("frame of %d bytes above the announced limit %d", len(b), announcedSrv)
				c.Fault("oversize_frame")
			}
			cc.Write(frame(0, b))
		case 1:
			c.Fault("ping")
			pings = append(pings, st.payload)
			cc.Write(frame(1, st.payload))
		case 2:
			c.Fault("undecodable_frame")
			cc.Write(frame(0, st.payload))
		case 3:
			c.Fault("reserved_frame_type")
			expectClosed = fmt.Sprintf("frame of reserved type %d", st.size)
			cc.Write(frame(byte(st.size), []byte("zz")))
		case 4:
			c.Fault("oversize_frame")
			expectClosed = "oversize frame header"
			n := announcedSrv + 1
			if n >= 1<<24 {
				expectClosed = ""
				continue
			}
			cc.Write([]byte{0, byte(n >> 16), byte(n >> 8), byte(n)})
		case 5:
			sentToActor++
			sizes = append(sizes, st.size)
			loc.Send(&wamp.Publish{Request: loc.NextReq(), Options: wamp.Dict{}, Topic: "u.x", Arguments: wamp.List{sentToActor, strings.Repeat("y", st.size)}})
		case 6:
			time.Sleep(time.Duration(g.Range(1, 50)) * time.Millisecond)
		case 8:
			// stop reading for a while (stay connected), then read on
			c.Fault("client_stall")
			if u := c.S.Elapsed() + time.Duration([]int{5, 200, 4000, 13000, 40000}[g.Intn(5)])*time.Millisecond; u > a.stallUntil {
				a.stallUntil = u
			}
		case 7:
			a.send(&wamp.Call{Request: req, Options: wamp.Dict{}, Procedure: "p.echo", Arguments: wamp.List{"echo", int(req)}})
		}
	}
	simrt.WaitQuiescent("script-done")
	if d := a.stallUntil - c.S.Elapsed(); d > 0 {
		time.Sleep(d) // the actor reads again
	}
	time.Sleep(2 * time.Second)
	simrt.WaitQuiescent("settled")
	faulty := faults.ResetAfterC > 0 || faults.ResetAfterS > 0 || faults.WriteErrS > 0
	c.Res.NonTrivial = len(pings) > 0 || sentToActor > 0

	// ---- oracle ----
	var pongs [][]byte
	lastTag := 0
	got := map[int]bool{}
	for _, f := range a.frames {
		if f.bad != "" {
			if !((faulty || expectClosed != "") && strings.Contains(f.bad, "stream ended")) {
				c.Violf("corrupted stream from the router: %s (frame type %d, %d bytes)", f.bad, f.typ, len(f.payload))
			}
			continue
		}
		switch f.typ {
		case 2:
			pongs = append(pongs, f.payload)
		case 1:
			c.Violf("router sent a PING")
		case 0:
			if ev, ok := f.msg.(*wamp.Event); ok && len(ev.Arguments) == 2 {
				n, _ := wamp.AsInt64(ev.Arguments[0])
				pad, _ := wamp.AsString(ev.Arguments[1])
				if int(n) <= lastTag {
					c.Violf("events arrived out of order over rawsocket: %d after %d", n, lastTag)
				}
				lastTag = int(n)
				got[int(n)] = true
				if int(n) >= 1 && int(n) <= len(sizes) && len(pad) != sizes[n-1] {
					c.Violf("event %d arrived with a payload of %d bytes, sent %d", n, len(pad), sizes[n-1])
				}
			}
			if len(f.payload) > cliLimit {
				c.Violf("router sent a message of %d bytes although the client announced a limit of %d", len(f.payload), cliLimit)
			}
		}
	}
	for i, p := range pongs {
		if i >= len(pings) {
			c.Violf("more PONGs (%d) than PINGs (%d)", len(pongs), len(pings))
			break
		}
		if !bytes.Equal(p, pings[i]) {
			c.Violf("PONG %d carries %q, the PING carried %q", i, p, pings[i])
		}
	}
	alive := !a.eof
	if expectClosed != "" && alive {
		c.Violf("connection still open after %s", expectClosed)
	}
	if expectClosed == "" && !faulty {
		if !alive {
			c.Violf("connection was closed by the router without cause")
		}
		if len(pongs) != len(pings) {
			c.Violf("%d PINGs were sent but %d PONGs came back on a healthy connection", len(pings), len(pongs))
		}
		// every event that fits the announced limit must have arrived
		for n := 1; n <= sentToActor; n++ {
			ev := &wamp.Event{Subscription: 1, Publication: 1 << 52, Details: wamp.Dict{"topic": "u.x"}, Arguments: wamp.List{n, strings.Repeat("y", sizes[n-1])}}
			b, _ := ser.Serialize(ev)
			if len(b)+40 < cliLimit && !got[n] {
				c.Violf("event %d (about %d bytes, limit %d) never arrived although later ones did or the connection is healthy", n, len(b), cliLimit)
			}
			if len(b) > cliLimit+40 && got[n] {
				c.Violf("event %d of about %d bytes arrived although the client announced a limit of %d", n, len(b), cliLimit)
			}
		}
	}
	cc.Close()
	simrt.WaitQuiescent("actor-closed")
	HealthProbe(c, w, "r1", "raw", 0)
	CloseAll(c, w, false)
}
