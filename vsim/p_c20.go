package vsim

import (
	"fmt"
	"time"

	"github.com/gammazero/nexus/v3/router"
	"github.com/gammazero/nexus/v3/router/auth"
	"github.com/gammazero/nexus/v3/simrt"
	"github.com/gammazero/nexus/v3/wamp"
)

func init() {
	Register(&PropDef{ID: "C20", Run: runC20, Config: seqConfig})
}

// runC20: event history. Realm with 1-3 history configurations (policy x
// limit, overlapping); publish sequences longer than the limits, with and
// without exclude/eligible lists; subscriber churn including the last
// subscriber leaving; get_events queries with every filter combination and
// with the numeric encodings a serialised client would produce.
func runC20(c *Ctx) {
	g := c.Gen
	if g.Chance(1, 4) {
		runC20b(c) // concurrent publishers and askers
		return
	}
	strict := g.Chance(1, 6)
	rc := &router.RealmConfig{URI: "r1", StrictURI: strict, AllowDisclose: true, AnonymousAuth: true,
		Authenticators: []auth.Authenticator{&StaticAuth{Roles: seqRoles}}}
	mr := NewMRealm("r1", strict, true)
	type hc struct {
		topic, match string
		limit        int
	}
	cands := []hc{{"a.b", "exact", 0}, {"a.", "prefix", 0}, {"a..c", "wildcard", 0}, {"a", "prefix", 0}, {"b", "exact", 0}, {"a.c", "exact", 0}}
	nh := g.Range(1, 3)
	perm := g.Perm(len(cands))
	var sample string
	for i := 0; i < nh; i++ {
		h := cands[perm[i]]
		h.limit = g.Range(1, 5)
		rc.TopicEventHistoryConfigs = append(rc.TopicEventHistoryConfigs, &router.TopicEventHistoryConfig{Topic: wamp.URI(h.topic), MatchPolicy: h.match, Limit: h.limit})
		mr.ConfigHistory(h.topic, h.match, h.limit)
		sample += fmt.Sprintf("hist(%q,%s,%d) ", h.topic, h.match, h.limit)
	}
	w, err := NewWorld(c.S, &router.Config{RealmConfigs: []*router.RealmConfig{rc}})
	if err != nil {
		c.Res.Tooling = "NewRouter: " + err.Error()
		return
	}
	c.W = w
	HistEpoch = time.Now().UnixMilli() - int64(c.S.Elapsed()/time.Millisecond)
	nslots := g.Range(2, 4)
	n := g.Range(14, 40)
	if c.Thorough {
		n = g.Range(30, 100)
	}
	var ops []SOp
	ops = append(ops, SOp{Kind: "join", Slot: 0, Realm: "r1", Local: g.Bool(), Roles: AllFeatures(), Authid: "alice", Role: "admin"},
		SOp{Kind: "sub", Slot: 0, URI: "", Opts: wamp.Dict{"match": "prefix"}})
	for s := 1; s < nslots; s++ {
		ops = append(ops, genJoin(g, s, "r1", seqC20))
	}
	uniq := 0
	topics := []string{"a.b", "a.b.c", "a.x.c", "a", "b", "a.c"}
	for len(ops) < n {
		op := SOp{Slot: g.Intn(nslots)}
		uniq++
		switch g.Weighted(12, 3, 2, 2, 1, 10, 2) {
		case 0:
			op.Kind = "pub"
			op.URI = topics[g.Intn(len(topics))]
			op.Opts = wamp.Dict{"acknowledge": true}
			if g.Chance(1, 6) {
				op.Opts["exclude"] = wamp.List{fmt.Sprintf("@slot%d", g.Intn(nslots))}
			}
			if g.Chance(1, 8) {
				op.Opts["eligible"] = wamp.List{fmt.Sprintf("@slot%d", g.Intn(nslots))}
			}
			if g.Chance(1, 8) {
				op.Opts["exclude_authrole"] = wamp.List{"user"}
			}
			op.Args = wamp.List{fmt.Sprintf("m%d", uniq)}
			if g.Chance(1, 4) {
				op.Kw = wamp.Dict{"k": uniq}
			}
		case 1:
			op.Kind = "sub"
			switch g.Intn(3) {
			case 0:
				op.URI, op.Opts = g.Pick("a.b", "b", "a.c"), wamp.Dict{}
			case 1:
				op.URI, op.Opts = g.Pick("a.", "a", ""), wamp.Dict{"match": "prefix"}
			case 2:
				op.URI, op.Opts = g.Pick("a..c", "a."), wamp.Dict{"match": "wildcard"}
			}
		case 2:
			op.Kind = "unsub"
			op.K = g.Intn(6)
			op.Var = g.Weighted(5, 2, 1)
		case 3:
			if op.Slot == 0 {
				continue
			}
			op.Kind = "leave"
			op.How = g.Intn(2)
		case 4:
			op = genJoin(g, op.Slot, "r1", seqC20)
		case 5:
			op.Kind = "meta"
			op.URI = "wamp.subscription.get_events"
			ref := any(fmt.Sprintf("@S:%d", g.Intn(6)))
			if g.Chance(1, 10) {
				ref = "@S?"
			}
			op.Args = wamp.List{ref}
			op.Kw = wamp.Dict{}
			num := func(n int) any {
				switch g.Intn(4) {
				case 0:
					return n
				case 1:
					return int64(n)
				case 2:
					return uint64(n)
				}
				return float64(n)
			}
			if g.Chance(1, 2) {
				op.Kw["limit"] = num(g.Range(1, 4))
				if g.Chance(1, 10) {
					op.Kw["limit"] = num(0)
				}
			}
			if g.Chance(1, 3) {
				op.Kw["reverse"] = g.Bool()
			}
			if g.Chance(1, 4) {
				op.Kw["topic"] = topics[g.Intn(len(topics))]
			}
			if g.Chance(1, 2) {
				key := g.Pick("from_publication", "after_publication", "before_publication", "until_publication")
				op.Kw[key] = fmt.Sprintf("@P:%d:%s", g.Intn(5), g.Pick("id", "u64", "i64", "f64"))
			}
			if g.Chance(1, 4) {
				key := g.Pick("from_time", "after_time", "before_time", "until_time")
				op.Kw[key] = fmt.Sprintf("@T:%d", g.Intn(5))
			}
		case 6:
			op.Kind = "sleep"
			op.K = []int{1, 10, 1000, 60000}[g.Intn(4)]
		}
		ops = append(ops, op)
	}
	c.Res.NOps = len(ops)
	c.Res.Sample = sample + "| " + SOpsSample(ops, c, 40)
	c.Res.Shape = fmt.Sprintf("%x", hashStr(c.Res.Sample))
	q := NewSeq(c, w)
	q.IgnoreMeta = true
	mr.Lenient = true
	q.AddRealm(mr)
	for i, op := range ops {
		if !c.Kept(i) {
			continue
		}
		op.Opts = q.resolveOpts(op.Opts)
		if op.Kind == "meta" {
			c.Probe("history_query")
		}
		q.Exec(op)
		if len(c.Res.Violations) > 0 || len(w.Viol) > 0 {
			break
		}
	}
	c.Res.NonTrivial = c.Res.Probes["history_query_nonempty"] > 0
	simrt.WaitQuiescent("end")
	CloseAll(c, w, false)
}
