package vsim

import (
	"fmt"
	"strings"
	"time"

	"github.com/gammazero/nexus/v3/router"
	"github.com/gammazero/nexus/v3/simrt"
	"github.com/gammazero/nexus/v3/wamp"
)

// runC20b: event history under concurrency. One publisher sends numbered,
// acknowledged publications to a history topic back to back while one or two
// other sessions ask for the history again and again (and a third party
// subscribes/unsubscribes). Every answer must be a gap-free ascending run of
// at most N numbers ending at a publication that was (a) at least the last one
// acknowledged before the question was sent and (b) at most the last one sent
// before the answer arrived - i.e. the retained window as of some moment
// between question and answer.
func runC20b(c *Ctx) {
	g := c.Gen
	limit := g.Range(1, 6)
	rc := &router.RealmConfig{URI: "r1", AnonymousAuth: true, AllowDisclose: true,
		TopicEventHistoryConfigs: []*router.TopicEventHistoryConfig{{Topic: "h.a", MatchPolicy: "exact", Limit: limit}, {Topic: "h.", MatchPolicy: "prefix", Limit: limit + 2}}}
	w, err := NewWorld(c.S, &router.Config{RealmConfigs: []*router.RealmConfig{rc}})
	if err != nil {
		c.Res.Tooling = "NewRouter: " + err.Error()
		return
	}
	c.W = w
	npub := g.Range(3, 14)
	nq := g.Range(1, 2)
	nask := g.Range(2, 8)
	churn := g.Bool()
	c.Res.NOps = npub + nq*nask
	c.Res.Sample = fmt.Sprintf("history limit %d; %d publications; %d askers x %d questions; churn=%v", limit, npub, nq, nask, churn)
	c.Res.Shape = fmt.Sprintf("%x", hashStr(c.Res.Sample)^c.Spec.SchedSeed)

	pub := w.NewSess("pub", "r1", g.Bool(), 64, nil)
	if !pub.Join() {
		c.Res.Tooling = "publisher could not join"
		return
	}
	type asker struct {
		s      *Sess
		sub    wamp.ID
		sentAt map[wamp.ID]int // request -> step before the CALL was handed over
	}
	var askers []*asker
	for i := 0; i < nq; i++ {
		s := w.NewSess(fmt.Sprintf("ask%d", i), "r1", g.Bool(), 64, nil)
		if !s.Join() {
			c.Res.Tooling = "asker could not join"
			return
		}
		req := s.NextReq()
		s.Send(&wamp.Subscribe{Request: req, Options: wamp.Dict{}, Topic: "h.a"})
		m := s.Await(time.Second, func(m wamp.Message) bool { _, ok := m.(*wamp.Subscribed); return ok })
		if m == nil {
			c.Res.Tooling = "asker not subscribed"
			return
		}
		askers = append(askers, &asker{s: s, sub: m.(*wamp.Subscribed).Subscription, sentAt: map[wamp.ID]int{}})
	}
	sentStep := make([]int, npub+1) // step at which publication k was handed over (0: not sent)
	pubReq := map[wamp.ID]int{}
	done := make(chan int)
	simrt.GoIn(pub.Party(), "actor:pub", func() {
		defer func() { done <- 0 }()
		for k := 1; k <= npub; k++ {
			if !c.Kept(k - 1) {
				continue
			}
			req := pub.NextReq()
			pubReq[req] = k
			sentStep[k] = c.S.StepCount()
			if !pub.Send(&wamp.Publish{Request: req, Options: wamp.Dict{"acknowledge": true}, Topic: "h.a", Arguments: wamp.List{k}}) {
				return
			}
		}
	})
	for i, a := range askers {
		simrt.GoIn(a.s.Party(), "actor:"+a.s.Name, func() {
			defer func() { done <- 1 }()
			for j := 0; j < nask; j++ {
				if !c.Kept(npub + i*nask + j) {
					continue
				}
				req := a.s.NextReq()
				a.sentAt[req] = c.S.StepCount()
				if !a.s.Send(&wamp.Call{Request: req, Options: wamp.Dict{}, Procedure: "wamp.subscription.get_events", Arguments: wamp.List{a.sub}}) {
					return
				}
				c.Probe("history_query")
			}
		})
	}
	n := 1 + len(askers)
	if churn {
		n++
		ch := w.NewSess("churn", "r1", g.Bool(), 64, nil)
		simrt.GoIn(ch.Party(), "actor:churn", func() {
			defer func() { done <- 2 }()
			if !ch.Join() {
				return
			}
			for j := 0; j < 3; j++ {
				ch.Send(&wamp.Subscribe{Request: ch.NextReq(), Options: wamp.Dict{}, Topic: "h.a"})
				ch.Send(&wamp.Subscribe{Request: ch.NextReq(), Options: wamp.Dict{"match": "prefix"}, Topic: "h."})
			}
			ch.CloseTransport()
		})
	}
	for ; n > 0; n-- {
		<-done
	}
	simrt.WaitQuiescent("settled")

	// when was publication k acknowledged (step), per the publisher's inbox
	ackStep := make([]int, npub+1)
	for _, r := range pub.Inbox {
		if p, ok := r.Msg.(*wamp.Published); ok {
			if k := pubReq[p.Request]; k > 0 {
				ackStep[k] = r.Seq
			}
		}
	}
	// the numbers actually sent form the sequence the history must show
	var sent []int
	for k := 1; k <= npub; k++ {
		if sentStep[k] > 0 {
			sent = append(sent, k)
		}
	}
	idx := map[int]int{}
	for i, k := range sent {
		idx[k] = i
	}
	answers := 0
	for _, a := range askers {
		for _, r := range a.s.Inbox {
			res, ok := r.Msg.(*wamp.Result)
			if !ok {
				if e, ok := r.Msg.(*wamp.Error); ok && e.Type == wamp.CALL {
					c.Violf("get_events on a history subscription answered with %s", Brief(e))
				}
				continue
			}
			q, ok := a.sentAt[res.Request]
			if !ok {
				continue
			}
			answers++
			var ks []int
			for _, it := range res.Arguments {
				_, args, _, _ := histItem(it)
				k := -1
				if len(args) == 1 {
					if v, ok := wamp.AsInt64(args[0]); ok {
						k = int(v)
					}
				}
				ks = append(ks, k)
			}
			desc := fmt.Sprintf("%s asked at step %d, answered at step %d with %v (limit %d)", a.s.Name, q, r.Seq, ks, limit)
			bad := len(ks) > limit
			for i, k := range ks {
				if _, known := idx[k]; !known || (i > 0 && idx[k] != idx[ks[i-1]]+1) {
					bad = true
				}
			}
			if bad {
				c.Violf("history answer is not a gap-free run of at most %d retained publications: %s", limit, desc)
				continue
			}
			lo, hi := -1, -1 // index (in sent) of the last acknowledged before the question / last sent before the answer
			for i, k := range sent {
				if ackStep[k] > 0 && ackStep[k] < q {
					lo = i
				}
				if sentStep[k] <= r.Seq {
					hi = i
				}
			}
			last := -1
			if len(ks) > 0 {
				last = idx[ks[len(ks)-1]]
			}
			if last < lo || last > hi {
				c.Violf("history answer does not end at a publication between the last one acknowledged before the question (%d) and the last one sent before the answer (%d): %s", lo+1, hi+1, desc)
				continue
			}
			want := last + 1
			if want > limit {
				want = limit
			}
			if len(ks) != want {
				c.Violf("history answer holds %d entries, the window ending at its last entry holds %d: %s", len(ks), want, desc)
			}
			if len(ks) > 0 {
				c.Probe("history_query_nonempty")
			}
		}
	}
	c.Res.NonTrivial = answers > 0 && c.S.MultiEnabled > 0
	if strings.Contains(c.Res.Sample, "churn=true") {
		c.Probe("history_with_subscriber_churn")
	}
	CloseAll(c, w, false)
}
