package vsim

import (
	"context"
	"errors"
	"fmt"
	"strings"
	"time"

	"github.com/gammazero/nexus/v3/client"
	"github.com/gammazero/nexus/v3/simrt"
	"github.com/gammazero/nexus/v3/transport"
	"github.com/gammazero/nexus/v3/wamp"
)

func init() {
	Register(&PropDef{ID: "C16", Run: func(c *Ctx) { runClient(c, false) }})
	Register(&PropDef{ID: "C17", Run: func(c *Ctx) { runClient(c, true) }})
}

// fakeRouter plays the router side of one client connection from a script:
// well-behaved (C16: correct replies, but in drawn order and with drawn
// delays, also exactly at the client's response time-out) or hostile (C17).
type fakeRouter struct {
	c       *Ctx
	g       *Rand
	peer    wamp.Peer
	hostile bool
	progPlanned map[string]int // call tag -> progressive results sent before the final reply
	rto     time.Duration // the client's response timeout
	done    chan struct{} // closed when the router side stops
	stopped bool
	nextID  wamp.ID
	subs    map[wamp.ID]string // subscription id -> topic
	regs    map[wamp.ID]string // registration id -> procedure
	seen    []Rcv              // everything the client sent
	// invocations we issued: id -> state
	invs     map[wamp.ID]*fkInv
	nextInv  wamp.ID
	delays   map[wamp.ID]time.Duration // request id -> delay we chose for the reply
	known    []wamp.ID
	closedBy string
}

type fkInv struct {
	proc        string
	finals      int
	progs       int
	interrupted bool
	interruptAt time.Duration // virtual time the INTERRUPT was sent at
}

func (f *fakeRouter) id() wamp.ID { f.nextID++; return f.nextID }

// send delivers m to the client after d (virtual), unless the connection is gone.
func (f *fakeRouter) send(m wamp.Message, d time.Duration) {
	simrt.Go("op:reply", func() {
		if d > 0 {
			time.Sleep(d)
		}
		if f.stopped {
			return
		}
		select {
		case f.peer.Send() <- m:
			simrt.Log("fakerouter -> %s", Brief(m))
		case <-f.done:
		}
	})
}

// reply answers a request; a hostile router sometimes answers twice, back to back.
func (f *fakeRouter) reply(m wamp.Message, d time.Duration) {
	if f.hostile && f.g.Chance(1, 5) {
		f.c.Fault("router_duplicate_reply")
		f.sendSeq([]wamp.Message{m, m}, d)
		return
	}
	f.send(m, d)
}

// sendSeq delivers the messages in order, the first after d, through one goroutine.
func (f *fakeRouter) sendSeq(ms []wamp.Message, d time.Duration) {
	simrt.Go("op:replyseq", func() {
		if d > 0 {
			time.Sleep(d)
		}
		for _, m := range ms {
			if f.stopped {
				return
			}
			select {
			case f.peer.Send() <- m:
				simrt.Log("fakerouter -> %s", Brief(m))
			case <-f.done:
				return
			}
		}
	})
}

func (f *fakeRouter) replyDelay(req wamp.ID) time.Duration {
	var d time.Duration
	switch f.g.Weighted(10, 3, 2, 2, 2) {
	case 0:
	case 1:
		d = time.Duration(f.g.Range(1, int(f.rto/time.Millisecond)-1)) * time.Millisecond
	case 2:
		d = f.rto // exactly at the time-out
	case 3:
		d = f.rto + time.Duration(f.g.Range(1, 50))*time.Millisecond
	case 4:
		d = f.rto - time.Millisecond
	}
	f.delays[req] = d
	return d
}

func (f *fakeRouter) stop(how string) {
	if f.stopped {
		return
	}
	f.stopped = true
	f.closedBy = how
	simrt.Log("fakerouter stops: %s", how)
	close(f.done)
}

func (f *fakeRouter) serve() {
	recv := f.peer.Recv()
	for {
		var msg wamp.Message
		var ok bool
		select {
		case msg, ok = <-recv:
		case <-f.done:
			return
		}
		if !ok {
			f.stop("client closed")
			return
		}
		f.seen = append(f.seen, Rcv{Seq: f.c.S.StepCount(), T: f.c.S.Elapsed(), Msg: msg})
		simrt.Log("fakerouter <- %s", Brief(msg))
		switch x := msg.(type) {
		case *wamp.Hello:
			f.send(&wamp.Welcome{ID: 4242, Details: wamp.Dict{"roles": wamp.Dict{
				"broker": wamp.Dict{"features": wamp.Dict{"payload_passthru_mode": true}},
				"dealer": wamp.Dict{"features": wamp.Dict{"call_canceling": true, "progressive_call_results": true, "payload_passthru_mode": true}}}}}, 0)
		case *wamp.Subscribe:
			id := f.id()
			f.subs[id] = string(x.Topic)
			f.known = append(f.known, id, x.Request)
			f.reply(&wamp.Subscribed{Request: x.Request, Subscription: id}, f.replyDelay(x.Request))
		case *wamp.Unsubscribe:
			delete(f.subs, x.Subscription)
			f.reply(&wamp.Unsubscribed{Request: x.Request}, f.replyDelay(x.Request))
		case *wamp.Register:
			id := f.id()
			f.regs[id] = string(x.Procedure)
			f.known = append(f.known, id, x.Request)
			f.reply(&wamp.Registered{Request: x.Request, Registration: id}, f.replyDelay(x.Request))
		case *wamp.Unregister:
			delete(f.regs, x.Registration)
			f.reply(&wamp.Unregistered{Request: x.Request}, f.replyDelay(x.Request))
		case *wamp.Publish:
			if ack, _ := x.Options["acknowledge"].(bool); ack {
				f.reply(&wamp.Published{Request: x.Request, Publication: f.id()}, f.replyDelay(x.Request))
			}
		case *wamp.Call:
			f.known = append(f.known, x.Request)
			d := time.Duration(0)
			if f.g.Chance(1, 2) {
				d = time.Duration(f.g.Range(1, 3000)) * time.Millisecond
			}
			f.delays[x.Request] = d
			var seq []wamp.Message
			if rp, _ := x.Options["receive_progress"].(bool); rp {
				n := f.g.Intn(5)
				for i := 0; i < n; i++ {
					seq = append(seq, &wamp.Result{Request: x.Request, Details: wamp.Dict{"progress": true}, Arguments: wamp.List{x.Arguments[0], i}})
				}
				if tag, ok := wamp.AsString(x.Arguments[0]); ok {
					if f.progPlanned == nil {
						f.progPlanned = map[string]int{}
					}
					f.progPlanned[tag] = n
				}
			}
			if f.g.Chance(1, 6) {
				seq = append(seq, &wamp.Error{Type: wamp.CALL, Request: x.Request, Details: wamp.Dict{}, Error: "app.error.boom", Arguments: x.Arguments})
			} else {
				seq = append(seq, &wamp.Result{Request: x.Request, Details: wamp.Dict{}, Arguments: x.Arguments})
			}
			if f.hostile && f.g.Chance(1, 5) {
				f.c.Fault("router_duplicate_reply")
				seq = append(seq, seq[len(seq)-1]) // the final reply twice, back to back
			}
			f.sendSeq(seq, d)
		case *wamp.Cancel:
			// the call's normal reply may already be on its way; answer the cancel as well (late or not)
			mode, _ := wamp.AsString(x.Options["mode"])
			if f.hostile && f.g.Chance(1, 3) {
				// no answer to the CANCEL: progressive results for the
				// cancelled call keep arriving, closer together than the
				// response timeout, for far longer than any bound on "returns"
				f.c.Fault("router_streams_after_cancel")
				req := x.Request
				gap := f.rto / time.Duration(f.g.Range(2, 5))
				simrt.Go("op:stream", func() {
					for i := 0; i < 400; i++ {
						time.Sleep(gap)
						if f.stopped {
							return
						}
						select {
						case f.peer.Send() <- &wamp.Result{Request: req, Details: wamp.Dict{"progress": true}, Arguments: wamp.List{"stream", i}}:
						case <-f.done:
							return
						}
					}
				})
			} else if mode != "kill" || f.g.Bool() {
				f.send(&wamp.Error{Type: wamp.CALL, Request: x.Request, Details: wamp.Dict{}, Error: wamp.ErrCanceled}, time.Duration(f.g.Intn(3))*f.rto/2)
			}
		case *wamp.Yield:
			if iv := f.invs[x.Request]; iv != nil {
				if p, _ := x.Options["progress"].(bool); p {
					iv.progs++
				} else {
					iv.finals++
				}
			} else if !f.hostile {
				f.c.Violf("client sent YIELD for invocation %d which the router never issued", x.Request)
			}
		case *wamp.Error:
			if iv := f.invs[x.Request]; iv != nil && x.Type == wamp.INVOCATION {
				iv.finals++
			} else if !f.hostile {
				f.c.Violf("client sent ERROR %s for request %d which the router never issued", x.Error, x.Request)
			}
		case *wamp.Goodbye:
			if f.hostile && f.g.Chance(1, 3) {
				// a router that does not answer GOODBYE (in time, or at all) and goes on sending:
				// an invocation for a registration the client never made, an event, a late GOODBYE
				f.c.Fault("router_ignores_goodbye")
				d := []time.Duration{0, f.rto / 2, f.rto, 2*f.rto - time.Millisecond, 2 * f.rto, 2*f.rto + time.Millisecond, 3 * f.rto}[f.g.Intn(7)]
				switch f.g.Intn(4) {
				case 0:
					f.send(&wamp.Invocation{Request: wamp.ID(900000 + f.g.Intn(100)), Registration: 987654, Details: wamp.Dict{}, Arguments: wamp.List{"late"}}, d)
				case 1:
					f.send(&wamp.Event{Subscription: 987654, Publication: 1, Details: wamp.Dict{}, Arguments: wamp.List{"late"}}, d)
				case 2:
					f.send(&wamp.Goodbye{Reason: wamp.CloseGoodbyeAndOut, Details: wamp.Dict{}}, d)
				}
				break
			}
			f.send(&wamp.Goodbye{Reason: wamp.CloseGoodbyeAndOut, Details: wamp.Dict{}}, 0)
		}
	}
}

// invoke sends an INVOCATION for one of the client's registrations.
func (f *fakeRouter) invoke(interruptAfter time.Duration, timeoutMs int) {
	var regIDs []wamp.ID
	for id := range f.regs {
		regIDs = append(regIDs, id)
	}
	if len(regIDs) == 0 {
		return
	}
	// deterministic choice
	min := regIDs[0]
	for _, id := range regIDs {
		if id < min {
			min = id
		}
	}
	f.nextInv++
	inv := f.nextInv
	f.invs[inv] = &fkInv{proc: f.regs[min]}
	det := wamp.Dict{}
	if timeoutMs > 0 {
		det["timeout"] = timeoutMs
	}
	f.send(&wamp.Invocation{Request: inv, Registration: min, Details: det, Arguments: wamp.List{fmt.Sprintf("inv%d", inv)}}, 0)
	if interruptAfter >= 0 {
		f.invs[inv].interrupted = true
		f.invs[inv].interruptAt = f.c.S.Elapsed() + interruptAfter
		f.send(&wamp.Interrupt{Request: inv, Options: wamp.Dict{"mode": "killnowait"}}, interruptAfter)
	}
}

type appRes struct {
	app   int
	op    string
	err   error
	t0    time.Duration
	dur   time.Duration
	req   string
	bound time.Duration
}

// runClient: the real client library over the local transport; its router
// side is a scripted actor. hostile=false: C16, hostile=true: C17.
func runClient(c *Ctx, hostile bool) {
	g := c.Gen
	cli, rtr := transport.LinkedPeersQSize([]int{1, 4, 64}[g.Intn(3)])
	rto := time.Duration([]int{20, 100, 1000, 5000}[g.Intn(4)]) * time.Millisecond
	f := &fakeRouter{c: c, g: g, peer: rtr, hostile: hostile, rto: rto, done: make(chan struct{}), subs: map[wamp.ID]string{}, regs: map[wamp.ID]string{},
		invs: map[wamp.ID]*fkInv{}, delays: map[wamp.ID]time.Duration{}, nextID: 100}
	log := &ringLog{}
	simrt.Go("actor:fakerouter", f.serve)
	cfg := client.Config{Realm: "r1", ResponseTimeout: rto, Logger: log}
	cl, err := client.NewClient(cli, cfg)
	if err != nil {
		c.Res.Tooling = "client could not join the scripted router: " + err.Error()
		return
	}
	cancelMode := g.Pick("killnowait", "kill", "skip")
	cl.SetCallCancelMode(cancelMode)
	napps := g.Range(2, 5)
	nops := g.Range(3, 9)
	type aop struct {
		app, kind, n int
		d            time.Duration
	}
	var ops []aop
	for a := 0; a < napps; a++ {
		for i := 0; i < nops; i++ {
			//            sub unsub reg unreg pub call callctx callprog sleep
			ops = append(ops, aop{app: a, kind: g.Weighted(3, 1, 3, 1, 3, 5, 3, 3, 1), n: i, d: time.Duration([]int{0, 1, 10, 500, 2999, 3000, 3001}[g.Intn(7)]) * time.Millisecond})
		}
	}
	// the router side's own initiative
	type rop struct {
		kind int // 0 event, 1 invocation, 2 invocation+interrupt, 3 hostile message, 4 disconnect, 5 goodbye, 6 abort, 7 stop reading, 8 invocation with timeout
		at   time.Duration
	}
	var rops []rop
	nr := g.Range(2, 10)
	for i := 0; i < nr; i++ {
		k := g.Weighted(4, 3, 2, 0, 0, 0, 0, 0, 1)
		if hostile {
			// (a router that silently stops reading without disconnecting is
			// not among the behaviours the property quantifies over: kind 7 off)
			k = g.Weighted(2, 2, 2, 10, 1, 1, 1, 0, 1)
		}
		rops = append(rops, rop{kind: k, at: time.Duration(g.Range(0, 4000)) * time.Millisecond})
	}
	c.Res.NOps = len(ops) + len(rops)
	var sample []string
	kn := []string{"sub", "unsub", "reg", "unreg", "pub", "call", "callctx", "callprog", "sleep"}
	for i, o := range ops {
		if c.Kept(i) && len(sample) < 30 {
			sample = append(sample, fmt.Sprintf("a%d:%s", o.app, kn[o.kind]))
		}
	}
	for i, r := range rops {
		if c.Kept(len(ops) + i) {
			sample = append(sample, fmt.Sprintf("R:%d@%v", r.kind, r.at))
		}
	}
	c.Res.Sample = fmt.Sprintf("rto=%v cancel=%s hostile=%v | %s", rto, cancelMode, hostile, strings.Join(sample, " "))
	c.Res.Shape = fmt.Sprintf("%x", hashStr(c.Res.Sample)^c.Spec.SchedSeed)

	// handlers
	evRunning, evOverlap := 0, false
	lastEv := map[string]int{}
	evOrder := ""
	handlerRuns := map[wamp.ID]int{}
	ctxCancelSeen := map[wamp.ID]bool{}
	ctxCancelAt := map[wamp.ID]time.Duration{}
	waitingHandler := map[wamp.ID]bool{}
	evHandler := func(topic string) client.EventHandler {
		return func(ev *wamp.Event) {
			evRunning++
			if evRunning > 1 {
				evOverlap = true
			}
			if len(ev.Arguments) >= 2 {
				n, _ := wamp.AsInt64(ev.Arguments[1])
				if int(n) <= lastEv[topic] {
					evOrder = fmt.Sprintf("topic %s: event %d handled after %d", topic, n, lastEv[topic])
				}
				lastEv[topic] = int(n)
			}
			if g.Chance(1, 3) {
				time.Sleep(time.Millisecond)
			}
			evRunning--
		}
	}
	invHandler := func(beh int) client.InvocationHandler {
		return func(ctx context.Context, inv *wamp.Invocation) client.InvokeResult {
			handlerRuns[inv.Request]++
			switch beh {
			case 0:
				return client.InvokeResult{Args: inv.Arguments}
			case 1:
				return client.InvokeResult{Err: "app.error.fail"}
			default:
				// wait until cancelled (or a long time)
				waitingHandler[inv.Request] = true
				t := time.NewTimer(30 * time.Second)
				defer t.Stop()
				select {
				case <-ctx.Done():
					ctxCancelSeen[inv.Request] = true
					ctxCancelAt[inv.Request] = c.S.Elapsed()
					return client.InvocationCanceled
				case <-t.C:
					return client.InvokeResult{Args: inv.Arguments}
				}
			}
		}
	}

	// "returns": the statement gives no figure. After a lost transport the
	// receive loop may still work off up to a queue's worth of messages, each
	// costing at most one response timeout; anything beyond that is a hang.
	slack := 70*rto + time.Second
	var results []*appRes
	progAfterReturn := ""
	progOrder := ""
	progCount := map[string]int{}
	slowProg := false // some progress handler takes longer than the response time-out: while it runs the client's receive loop waits (no latency is promised for what queues up behind it)
	done := make(chan int)
	for a := 0; a < napps; a++ {
		simrt.Go(fmt.Sprintf("app:%d", a), func() {
			defer func() { done <- a }()
			for i, o := range ops {
				if o.app != a || !c.Kept(i) {
					continue
				}
				topic := fmt.Sprintf("t.a%d.n%d", a, o.n%3)
				proc := fmt.Sprintf("p.a%d.n%d", a, o.n%3)
				r := &appRes{app: a, op: kn[o.kind], t0: c.S.Elapsed(), bound: slack}
				switch o.kind {
				case 0:
					r.err = cl.Subscribe(topic, evHandler(topic), nil)
				case 1:
					r.err = cl.Unsubscribe(topic)
				case 2:
					r.err = cl.Register(proc, invHandler(g.Intn(3)), nil)
				case 3:
					r.err = cl.Unregister(proc)
				case 4:
					r.err = cl.Publish(topic, wamp.Dict{"acknowledge": true}, wamp.List{"x"}, nil)
				case 5, 6, 7:
					tag := fmt.Sprintf("call-a%d-%d", a, i)
					r.req = tag
					ctx, cancel := context.WithTimeout(context.Background(), 20*time.Second)
					r.bound = 20*time.Second + slack
					if o.kind == 6 || (o.kind == 7 && o.n%2 == 1) {
						// (every other progressive call also runs under a short deadline)
						cancel()
						ctx, cancel = context.WithTimeout(context.Background(), o.d)
						r.bound = o.d + slack
					}
					var prog client.ProgressHandler
					returned := false
					lastP := -1
					if o.kind == 7 {
						slow := time.Duration(o.n%3) * 7 * time.Millisecond // some handlers lag behind the stream
						if o.n%5 == 4 {
							slow = rto + 10*time.Millisecond // ... some by more than the response time-out
							slowProg = true
						}
						prog = func(res *wamp.Result) {
							progCount[tag]++
							if returned {
								progAfterReturn = tag
							}
							if slow > 0 {
								time.Sleep(slow)
							}
							if len(res.Arguments) >= 2 {
								n, _ := wamp.AsInt64(res.Arguments[1])
								if int(n) <= lastP {
									progOrder = fmt.Sprintf("%s: progressive result %d after %d", tag, n, lastP)
								}
								lastP = int(n)
							}
						}
					}
					res, err := cl.Call(ctx, "p.remote", nil, wamp.List{tag}, nil, prog)
					returned = true
					cancel()
					r.err = err
					if err == nil && !hostile {
						// (a hostile router may put anything into a RESULT bearing our request id)
						if got, _ := wamp.AsString(res.Arguments[0]); got != tag {
							c.Violf("Call %s returned the reply of another request: %v", tag, res.Arguments)
						}
					} else if err != nil && !hostile {
						var rpcErr client.RPCError
						if errors.As(err, &rpcErr) && len(rpcErr.Err.Arguments) > 0 {
							if got, _ := wamp.AsString(rpcErr.Err.Arguments[0]); got != tag && rpcErr.Err.Error == "app.error.boom" {
								c.Violf("Call %s returned the error reply of another request: %v", tag, rpcErr.Err.Arguments)
							}
						}
					}
				case 8:
					time.Sleep(o.d)
				}
				r.dur = c.S.Elapsed() - r.t0
				results = append(results, r)
				if o.kind != 8 {
					c.Probe("api_call_returned")
				}
			}
		})
	}
	// router-side initiative
	simrt.Go("actor:routerinit", func() {
		evSeq := map[string]int{}
		for i, r := range rops {
			if !c.Kept(len(ops) + i) {
				continue
			}
			if d := r.at - c.S.Elapsed(); d > 0 {
				time.Sleep(d)
			}
			if f.stopped {
				return
			}
			switch r.kind {
			case 0:
				for id, topic := range f.subs {
					evSeq[topic]++
					ev := &wamp.Event{Subscription: id, Publication: f.id(), Details: wamp.Dict{}, Arguments: wamp.List{topic, evSeq[topic]}}
					select {
					case f.peer.Send() <- ev: // in order: sent by this goroutine itself
						simrt.Log("fakerouter -> %s", Brief(ev))
					case <-f.done:
					}
					break
				}
			case 1:
				f.invoke(-1, 0)
			case 2:
				f.invoke(time.Duration(g.Range(0, 20))*time.Millisecond, 0)
			case 8:
				if g.Bool() {
					f.invoke(-1, g.Range(1, 50))
				} else {
					// a (long) timeout forwarded by the dealer, and an early INTERRUPT
					f.invoke(time.Duration(g.Range(0, 20))*time.Millisecond, 20000)
				}
			case 3:
				c.Fault("hostile_router_message")
				m := HostileMessage(g, f.known)
				select {
				case f.peer.Send() <- m:
					simrt.Log("fakerouter -> (hostile) %s", Brief(m))
				case <-f.done:
				}
			case 4:
				c.Fault("router_disconnects")
				f.stop("disconnect")
				f.peer.Close()
				return
			case 5:
				c.Fault("router_goodbye")
				f.send(&wamp.Goodbye{Reason: wamp.CloseSystemShutdown, Details: wamp.Dict{}}, 0)
			case 6:
				c.Fault("router_abort")
				f.send(&wamp.Abort{Reason: wamp.ErrProtocolViolation, Details: wamp.Dict{}}, 0)
			case 7:
				c.Fault("router_stops_reading")
				f.stop("stops reading")
				return
			}
		}
	})
	for a := 0; a < napps; a++ {
		<-done
	}
	simrt.WaitQuiescent("apps-done")
	c.Res.NonTrivial = len(results) > 2

	// ---- oracle: the API calls ----
	for _, r := range results {
		if r.op == "sleep" {
			continue
		}
		if r.dur > r.bound {
			c.Violf("%s by app %d returned only after %v (bound %v, response timeout %v): %v", r.op, r.app, r.dur, r.bound, rto, r.err)
		}
		if !hostile && f.closedBy == "" && r.err != nil {
			switch {
			case errors.Is(r.err, client.ErrReplyTimeout), errors.Is(r.err, context.DeadlineExceeded), errors.Is(r.err, context.Canceled):
			case strings.Contains(r.err.Error(), "app.error.boom"), strings.Contains(r.err.Error(), "wamp.error.canceled"):
			case strings.Contains(r.err.Error(), "not subscribed"), strings.Contains(r.err.Error(), "not registered"), strings.Contains(r.err.Error(), "already"):
			default:
				c.Violf("%s by app %d failed against a well-behaved router: %v", r.op, r.app, r.err)
			}
		}
	}
	if evOverlap {
		c.Violf("two event handlers ran at the same time")
	}
	if evOrder != "" && !hostile {
		c.Violf("event handlers ran out of arrival order: %s", evOrder)
	}
	if progAfterReturn != "" {
		c.Violf("progress handler of %s was called after Call had returned", progAfterReturn)
	}
	if progOrder != "" && !hostile {
		c.Violf("progressive results delivered out of order: %s", progOrder)
	}
	if !hostile && f.closedBy == "" {
		// a Call that returned its final result was handed every progressive result sent before it
		for _, r := range results {
			if r.op == "callprog" && r.err == nil {
				if want, ok := f.progPlanned[r.req]; ok {
					c.Probe("progressive_results_counted")
					if progCount[r.req] != want {
						c.Violf("Call %s returned its final result, but its progress handler saw %d of the %d progressive results the router had sent before it", r.req, progCount[r.req], want)
					}
				}
			}
		}
	}
	// a Call that sent CANCEL (its context ended) returns an error - the context's, or the reply
	// time-out when the CANCEL is never answered - never a result that turned up afterwards
	{
		reqOf := map[string]wamp.ID{}
		cancelled := map[wamp.ID]bool{}
		for _, s := range f.seen {
			switch x := s.Msg.(type) {
			case *wamp.Call:
				if len(x.Arguments) > 0 {
					if tag, ok := wamp.AsString(x.Arguments[0]); ok {
						reqOf[tag] = x.Request
					}
				}
			case *wamp.Cancel:
				cancelled[x.Request] = true
			}
		}
		for _, r := range results {
			if id, ok := reqOf[r.req]; ok && cancelled[id] && r.err == nil && (r.op == "callctx" || r.op == "call" || r.op == "callprog") {
				c.Violf("Call %s sent CANCEL (its context had ended) and then returned a result with a nil error", r.req)
			}
			if id, ok := reqOf[r.req]; ok && cancelled[id] {
				c.Probe("call_that_sent_cancel_checked")
			}
		}
	}
	if !hostile {
		// a Call whose context ended must have produced a CANCEL with the configured mode
		for _, r := range results {
			if r.op == "callctx" && (errors.Is(r.err, context.DeadlineExceeded) || errors.Is(r.err, context.Canceled)) {
				found := false
				for _, s := range f.seen {
					if cm, ok := s.Msg.(*wamp.Cancel); ok {
						if m, _ := wamp.AsString(cm.Options["mode"]); m == cancelMode {
							found = true
						}
					}
				}
				if !found {
					c.Violf("Call %s returned %v but no CANCEL with mode %s was sent", r.req, r.err, cancelMode)
				}
			}
		}
	}

	// let the handlers finish, then the invocations must each have exactly one final answer
	time.Sleep(40 * time.Second)
	simrt.WaitQuiescent("handlers-done")
	if !hostile && f.closedBy == "" {
		for id, iv := range f.invs {
			if handlerRuns[id] > 1 {
				c.Violf("invocation %d ran its handler %d times", id, handlerRuns[id])
			}
			if iv.interrupted && waitingHandler[id] && !slowProg {
				if at, seen := ctxCancelAt[id]; !seen || at > iv.interruptAt+time.Second {
					c.Violf("invocation %d: the handler's context was not cancelled by the INTERRUPT sent at %v (cancelled: %v at %v)", id, iv.interruptAt, seen, at)
				}
				c.Probe("interrupt_seen_by_handler")
			}
			if iv.finals != 1 && handlerRuns[id] > 0 {
				c.Violf("invocation %d of %s was answered %d times (handler runs: %d, interrupted: %v)", id, iv.proc, iv.finals, handlerRuns[id], iv.interrupted)
			}
		}
	}

	// ---- Close and what remains ----
	doneClosed := false
	select {
	case <-cl.Done():
		doneClosed = true
	default:
	}
	if (f.closedBy == "disconnect") && !doneClosed {
		c.Violf("Done() not signalled although the transport ended")
	}
	t0 := c.S.Elapsed()
	closeRet := make(chan error)
	simrt.Go("app:close", func() { closeRet <- cl.Close() })
	var closeErr error
	closed := false
	timer := time.NewTimer(10*rto + 2*time.Minute)
	select {
	case closeErr = <-closeRet:
		closed = true
	case <-timer.C:
	}
	timer.Stop()
	if !closed {
		c.Violf("Close() did not return within %v (router side: %q)", 10*rto+2*time.Minute, f.closedBy)
	} else {
		_ = closeErr
		c.Probe("close_returned")
		// "after which no goroutine or handler of the client remains", Done() signalled: now, not
		// once the router side gives up too
		simrt.WaitQuiescent("closed-now")
		select {
		case <-cl.Done():
		default:
			c.Violf("Close() returned but Done() is not signalled (router side: %q)", f.closedBy)
		}
		var leftNow []string
		for _, l := range c.S.Live() {
			if strings.Contains(l, "(client.go:") {
				leftNow = append(leftNow, l)
			}
		}
		if len(leftNow) > 0 {
			c.Violf("goroutines of the client remain when Close() has returned: %s", strings.Join(leftNow, "; "))
		}
		if c.S.Elapsed()-t0 > 4*rto+time.Second {
			c.Probe("close_slow")
		}
	}
	f.stop("end")
	time.Sleep(2 * time.Minute)
	simrt.WaitQuiescent("end")
	if closed {
		var left []string
		for _, l := range c.S.Live() {
			if strings.Contains(l, "(client.go:") {
				left = append(left, l)
			}
		}
		if len(left) > 0 {
			c.Violf("goroutines of the client remain after Close: %s", strings.Join(left, "; "))
		}
	}
}
