package vsim

import (
	"fmt"
	"sort"
	"strings"
	"time"

	"github.com/anishathalye/porcupine"
	"github.com/gammazero/nexus/v3/router"
	"github.com/gammazero/nexus/v3/simrt"
	"github.com/gammazero/nexus/v3/wamp"
)

// Concurrent conformance by linearizability (porcupine).
//
// The sequential executor (seq.go) sends one stimulus and lets the router
// settle before the next. Here several simulated clients issue requests
// *concurrently* - each waits only for its own reply - so that requests of
// different sessions are in flight in the session handlers, the realm, the
// broker, the dealer and the meta session at once, under the seeded schedule.
// Every request is recorded as an operation with an invocation stamp (taken
// before the message is handed over) and a return stamp (taken when the reply
// is read); stamps come from one global event counter, not from virtual time.
// After the run the history is checked, outside the bubble, against three
// small sequential models - the realm's session table, the broker's
// subscription table, the dealer's registration table - with porcupine: there
// must be one order of the operations, consistent with real-time precedence,
// in which every answer (ids, errors, EVENT receiver sets, the callee an
// INVOCATION went to, every meta-API answer) is what the sequential model
// gives. A session leaving is one operation per table, from GOODBYE to the
// moment the client sees its transport closed.

type linOp struct {
	Idx     int
	Client  int
	Part    byte // 'S' sessions, 'B' broker, 'D' dealer
	Kind    string
	Sess    wamp.ID
	URI     string
	Match   string
	Invoke  string
	ID      wamp.ID
	ExclMe  bool
	Excl    []wamp.ID
	Elig    []wamp.ID
	HasEl   bool
	Ack     bool
	Tag     string
	rawRegs bool       // Set still holds the realm's own wamp.* registrations
	Blind   *[]wamp.ID // sessions that dropped their transport without reading on: what was sent to them last is unobserved
	// outputs
	OutID wamp.ID
	Err   string
	Set   []string
	N     int64
	Call  int64
	Ret   int64
}

func (o *linOp) String() string {
	in := o.Kind
	switch o.Kind {
	case "sub", "sublookup", "submatch":
		in += fmt.Sprintf("(%q,%s)", o.URI, o.Match)
	case "reg":
		in += fmt.Sprintf("(%q,%s,%s)", o.URI, o.Match, o.Invoke)
	case "reglookup", "regmatch":
		in += fmt.Sprintf("(%q,%s)", o.URI, o.Match)
	case "call":
		in += fmt.Sprintf("(%q)", o.URI)
	case "pub":
		in += fmt.Sprintf("(%q,exclude_me=%v", o.URI, o.ExclMe)
		if len(o.Excl) > 0 {
			in += fmt.Sprintf(",exclude=%v", o.Excl)
		}
		if o.HasEl {
			in += fmt.Sprintf(",eligible=%v", o.Elig)
		}
		in += ")"
	case "unsub", "unreg", "subcount", "sublistsubs", "subget", "regcount", "reglistcallees", "regget":
		in += fmt.Sprintf("(%d)", o.ID)
	}
	out := ""
	if o.Err != "" {
		out = "ERROR " + o.Err
	} else {
		switch o.Kind {
		case "join", "sub", "reg", "sublookup", "reglookup", "regmatch":
			out = fmt.Sprintf("id %d", o.OutID)
		case "call":
			out = fmt.Sprintf("invoked %v", o.Set)
		case "scount", "subcount", "regcount":
			out = fmt.Sprintf("%d", o.N)
		case "unsub", "unreg", "leaveS", "leaveB", "leaveD":
			out = "ok"
		default:
			out = fmt.Sprintf("%v", o.Set)
		}
	}
	ret := fmt.Sprint(o.Ret)
	if o.Ret == linInf {
		ret = "end"
	}
	return fmt.Sprintf("[%d,%s] c%d s%d %s -> %s", o.Call, ret, o.Client, o.Sess, in, out)
}

const linInf = int64(1) << 50

func (o *linOp) blind(id wamp.ID) bool { return o.Blind != nil && hasID(*o.Blind, id) }

// ---- sequential models (purely functional: Step clones) ----

type linSub struct {
	ID    wamp.ID
	Topic string
	Match string
	Subs  []wamp.ID // sorted
}

type linReg struct {
	ID      wamp.ID
	Proc    string
	Match   string
	Invoke  string
	Callees []wamp.ID // registration order
	Last    int       // index of the callee the last round-robin call went to, -1 unknown
	Changed bool      // membership changed since
}

type linState struct {
	Sess []wamp.ID
	Subs []linSub
	Regs []linReg
	key  string
}

func (s *linState) clone() *linState {
	n := &linState{Sess: append([]wamp.ID(nil), s.Sess...)}
	for _, x := range s.Subs {
		x.Subs = append([]wamp.ID(nil), x.Subs...)
		n.Subs = append(n.Subs, x)
	}
	for _, x := range s.Regs {
		x.Callees = append([]wamp.ID(nil), x.Callees...)
		n.Regs = append(n.Regs, x)
	}
	return n
}

func (s *linState) Key() string {
	if s.key == "" {
		s.key = fmt.Sprintf("%v|%v|%v", s.Sess, s.Subs, s.Regs)
	}
	return s.key
}

func hasID(l []wamp.ID, x wamp.ID) bool {
	for _, e := range l {
		if e == x {
			return true
		}
	}
	return false
}

func delID(l []wamp.ID, x wamp.ID) []wamp.ID {
	for i, e := range l {
		if e == x {
			return append(l[:i:i], l[i+1:]...)
		}
	}
	return l
}

func addSorted(l []wamp.ID, x wamp.ID) []wamp.ID {
	l = append(l, x)
	sort.Slice(l, func(i, j int) bool { return l[i] < l[j] })
	return l
}

func idStrs(l []wamp.ID) []string {
	out := make([]string, 0, len(l))
	for _, e := range l {
		out = append(out, fmt.Sprint(e))
	}
	sort.Strings(out)
	return out
}

func sortedStrs(xs ...string) []string {
	sort.Strings(xs)
	return xs
}

func sameStrs(a, b []string) bool {
	if len(a) != len(b) {
		return false
	}
	for i := range a {
		if a[i] != b[i] {
			return false
		}
	}
	return true
}

func matchLetter(m string) string {
	switch m {
	case "prefix":
		return "p"
	case "wildcard":
		return "w"
	}
	return "e"
}

// bestRegs: exact, else longest prefix, else any matching wildcard.
func (s *linState) bestRegs(proc string) []int {
	for i, r := range s.Regs {
		if r.Match == "exact" && r.Proc == proc {
			return []int{i}
		}
	}
	best, bi := -1, -1
	for i, r := range s.Regs {
		if r.Match == "prefix" && MMatches(proc, r.Proc, "prefix") && len(r.Proc) > best {
			best, bi = len(r.Proc), i
		}
	}
	if bi >= 0 {
		return []int{bi}
	}
	var out []int
	for i, r := range s.Regs {
		if r.Match == "wildcard" && MMatches(proc, r.Proc, "wildcard") {
			out = append(out, i)
		}
	}
	return out
}

func linStep(strict bool) func(state, input, output interface{}) (bool, interface{}) {
	return func(state, input, _ interface{}) (bool, interface{}) {
		o := input.(*linOp)
		st := state.(*linState).clone()
		ok := st.apply(o, strict)
		return ok, st
	}
}

// apply checks the recorded answer of o against the state and performs its effect.
func (s *linState) apply(o *linOp, strict bool) bool {
	switch o.Kind {
	// ---- session table ----
	case "join":
		if o.Err != "" || o.OutID == 0 || hasID(s.Sess, o.OutID) {
			return false
		}
		s.Sess = addSorted(s.Sess, o.OutID)
		return true
	case "leaveS":
		s.Sess = delID(s.Sess, o.Sess)
		return true
	case "scount":
		return o.Err == "" && o.N == int64(len(s.Sess))
	case "slist":
		return o.Err == "" && sameStrs(o.Set, idStrs(s.Sess))

	// ---- broker ----
	case "sub":
		if !MValidURI(o.URI, strict, o.Match) {
			return o.Err == "wamp.error.invalid_uri"
		}
		if o.Err != "" || o.OutID == 0 {
			return false
		}
		for i := range s.Subs {
			x := &s.Subs[i]
			if x.Topic == o.URI && x.Match == o.Match {
				if x.ID != o.OutID {
					return false
				}
				if !hasID(x.Subs, o.Sess) {
					x.Subs = addSorted(x.Subs, o.Sess)
				}
				return true
			}
		}
		for _, x := range s.Subs {
			if x.ID == o.OutID {
				return false // id of another live subscription
			}
		}
		s.Subs = append(s.Subs, linSub{ID: o.OutID, Topic: o.URI, Match: o.Match, Subs: []wamp.ID{o.Sess}})
		sort.Slice(s.Subs, func(i, j int) bool { return s.Subs[i].ID < s.Subs[j].ID })
		return true
	case "unsub":
		for i := range s.Subs {
			x := &s.Subs[i]
			if x.ID == o.ID && hasID(x.Subs, o.Sess) {
				if o.Err != "" {
					return false
				}
				x.Subs = delID(x.Subs, o.Sess)
				if len(x.Subs) == 0 {
					s.Subs = append(s.Subs[:i:i], s.Subs[i+1:]...)
				}
				return true
			}
		}
		return o.Err == "wamp.error.no_such_subscription"
	case "leaveB":
		var keep []linSub
		for _, x := range s.Subs {
			x.Subs = delID(x.Subs, o.Sess)
			if len(x.Subs) > 0 {
				keep = append(keep, x)
			}
		}
		s.Subs = keep
		return true
	case "pub":
		if !MValidURI(o.URI, strict, "exact") {
			if o.Ack {
				return o.Err == "wamp.error.invalid_uri" && len(o.Set) == 0
			}
			return len(o.Set) == 0
		}
		if o.Err != "" {
			return false
		}
		var want []string
		for _, x := range s.Subs {
			if !MMatches(o.URI, x.Topic, x.Match) {
				continue
			}
			for _, r := range x.Subs {
				if r == o.Sess && o.ExclMe {
					continue
				}
				if hasID(o.Excl, r) {
					continue
				}
				if o.HasEl && !hasID(o.Elig, r) {
					continue
				}
				if o.blind(r) {
					continue // may have been delivered unobserved
				}
				want = append(want, fmt.Sprintf("%d:%d", r, x.ID))
			}
		}
		sort.Strings(want)
		var got []string
		for _, e := range o.Set {
			var sid, sub wamp.ID
			fmt.Sscanf(e, "%d:%d", &sid, &sub)
			if !o.blind(sid) {
				got = append(got, e)
			}
		}
		return sameStrs(got, want)
	case "sublist":
		var want []string
		for _, x := range s.Subs {
			want = append(want, fmt.Sprintf("%s:%d", matchLetter(x.Match), x.ID))
		}
		sort.Strings(want)
		return o.Err == "" && sameStrs(o.Set, want)
	case "sublookup":
		var want wamp.ID
		for _, x := range s.Subs {
			if x.Topic == o.URI && x.Match == o.Match {
				want = x.ID
			}
		}
		return o.Err == "" && o.OutID == want
	case "submatch":
		var want []wamp.ID
		for _, x := range s.Subs {
			if MMatches(o.URI, x.Topic, x.Match) {
				want = append(want, x.ID)
			}
		}
		return o.Err == "" && sameStrs(o.Set, idStrs(want))
	case "subcount", "sublistsubs", "subget":
		for _, x := range s.Subs {
			if x.ID == o.ID {
				if o.Err != "" {
					return false
				}
				switch o.Kind {
				case "subcount":
					return o.N == int64(len(x.Subs))
				case "sublistsubs":
					return sameStrs(o.Set, idStrs(x.Subs))
				}
				return sameStrs(o.Set, sortedStrs(x.Topic, x.Match))
			}
		}
		return o.Err == "wamp.error.no_such_subscription"

	// ---- dealer ----
	case "reg":
		if !MValidURI(o.URI, strict, o.Match) || strings.HasPrefix(o.URI, "wamp.") {
			return o.Err == "wamp.error.invalid_uri"
		}
		for i := range s.Regs {
			x := &s.Regs[i]
			if x.Proc == o.URI && x.Match == o.Match {
				if x.Invoke == "single" || x.Invoke != o.Invoke {
					return o.Err == "wamp.error.procedure_already_exists"
				}
				if o.Err != "" || x.ID != o.OutID {
					return false
				}
				if !hasID(x.Callees, o.Sess) {
					x.Callees = append(x.Callees, o.Sess)
					x.Changed = true
				}
				return true
			}
		}
		if o.Err != "" || o.OutID == 0 {
			return false
		}
		for _, x := range s.Regs {
			if x.ID == o.OutID {
				return false
			}
		}
		s.Regs = append(s.Regs, linReg{ID: o.OutID, Proc: o.URI, Match: o.Match, Invoke: o.Invoke, Callees: []wamp.ID{o.Sess}, Last: -1})
		sort.Slice(s.Regs, func(i, j int) bool { return s.Regs[i].ID < s.Regs[j].ID })
		return true
	case "unreg":
		for i := range s.Regs {
			x := &s.Regs[i]
			if x.ID == o.ID && hasID(x.Callees, o.Sess) {
				if o.Err != "" {
					return false
				}
				x.Callees = delID(x.Callees, o.Sess)
				x.Changed = true
				if len(x.Callees) == 0 {
					s.Regs = append(s.Regs[:i:i], s.Regs[i+1:]...)
				}
				return true
			}
		}
		return o.Err == "wamp.error.no_such_registration"
	case "leaveD":
		var keep []linReg
		for _, x := range s.Regs {
			if hasID(x.Callees, o.Sess) {
				x.Callees = delID(x.Callees, o.Sess)
				x.Changed = true
			}
			if len(x.Callees) > 0 {
				keep = append(keep, x)
			}
		}
		s.Regs = keep
		return true
	case "call":
		cands := s.bestRegs(o.URI)
		if len(cands) == 0 {
			return o.Err == "wamp.error.no_such_procedure" && len(o.Set) == 0
		}
		if len(o.Set) == 0 && o.Err == "wamp.error.canceled" {
			// the INVOCATION went to a session that had dropped its transport and never read it
			found := false
			for _, ci := range cands {
				for _, callee := range s.Regs[ci].Callees {
					if o.blind(callee) {
						found = true
						s.Regs[ci].Changed = true
					}
				}
			}
			return found
		}
		if len(o.Set) != 1 {
			return false // routed: exactly one INVOCATION
		}
		for _, ci := range cands {
			x := &s.Regs[ci]
			n := len(x.Callees)
			for k, callee := range x.Callees {
				if o.Set[0] != fmt.Sprintf("%d:%d", callee, x.ID) {
					continue
				}
				allowed := false
				switch {
				case n == 1:
					allowed = true
				case x.Invoke == "first":
					allowed = k == 0
				case x.Invoke == "last":
					allowed = k == n-1
				case x.Invoke == "roundrobin":
					allowed = x.Changed || x.Last < 0 || k == (x.Last+1)%n
				default: // random
					allowed = true
				}
				if !allowed {
					return false
				}
				x.Last, x.Changed = k, false
				return true
			}
		}
		return false
	case "reglist":
		var want []string
		for _, x := range s.Regs {
			want = append(want, fmt.Sprintf("%s:%d", matchLetter(x.Match), x.ID))
		}
		sort.Strings(want)
		return o.Err == "" && sameStrs(o.Set, want)
	case "reglookup":
		var want wamp.ID
		for _, x := range s.Regs {
			if x.Proc == o.URI && x.Match == o.Match {
				want = x.ID
			}
		}
		return o.Err == "" && o.OutID == want
	case "regmatch":
		cands := s.bestRegs(o.URI)
		if len(cands) == 0 {
			return o.Err == "" && o.OutID == 0
		}
		for _, ci := range cands {
			if s.Regs[ci].ID == o.OutID {
				return o.Err == ""
			}
		}
		return false
	case "regcount", "reglistcallees", "regget":
		for _, x := range s.Regs {
			if x.ID == o.ID {
				if o.Err != "" {
					return false
				}
				switch o.Kind {
				case "regcount":
					return o.N == int64(len(x.Callees))
				case "reglistcallees":
					return sameStrs(o.Set, idStrs(x.Callees))
				}
				return sameStrs(o.Set, sortedStrs(x.Proc, x.Match, x.Invoke))
			}
		}
		return o.Err == "wamp.error.no_such_registration"
	}
	return false
}

// ---- the scenario ----

type linFlavour int

const (
	linPubSub linFlavour = iota
	linRPC
	linMeta
)

type linTmpl struct {
	Kind   string
	URI    string
	Match  string
	Invoke string
	R1, R2 int
	ExclMe bool
	Ack    bool
	Abrupt bool
}

var linTopics = []string{"a.b", "a.c", "a.b.c", "b"}
var linSubPats = [][2]string{{"a.b", "exact"}, {"a.c", "exact"}, {"b", "exact"}, {"a.", "prefix"}, {"a.b", "prefix"}, {"a..c", "wildcard"}, {".b", "wildcard"}, {"a b", "exact"}, {"a.b.c", "exact"}}
var linProcs = []string{"p.x", "p.y", "p.x.z", "q"}
var linRegPats = [][2]string{{"p.x", "exact"}, {"p.y", "exact"}, {"q", "exact"}, {"p.", "prefix"}, {"p.x", "prefix"}, {"p..z", "wildcard"}, {".x", "wildcard"}, {"wamp.x", "exact"}, {"p.x.z", "exact"}}
var linInvokes = []string{"single", "roundrobin", "roundrobin", "first", "last", "random"}

type linClient struct {
	grp     *simrt.Group
	idx     int
	gen     int
	s       *Sess
	subs    []wamp.ID
	regs    []wamp.ID
	waiting map[wamp.ID]chan wamp.Message
	retAt   map[wamp.ID]int64
}

type linWorld struct {
	c        *Ctx
	w        *World
	ev       *int64 // one global event counter, shared by the realms of a run
	realm    string
	ops      []*linOp
	pubs     map[string]*linOp // tag -> publish op
	calls    map[string]*linOp
	pubReq   map[string]wamp.ID
	allSess  []wamp.ID
	allSubs  []wamp.ID
	allRegs  []wamp.ID
	internal map[wamp.ID]bool
	sessOf   map[*Sess]wamp.ID
	strict   bool
	blind    []wamp.ID
	net      bool // a third of the sessions over simulated rawsocket / websocket
}

func (lw *linWorld) stamp() int64 { *lw.ev++; return *lw.ev }

const linPatience = 20 * time.Second

func (lw *linWorld) newSess(cl *linClient) *Sess {
	cl.gen++
	// transport and locality are a function of (run, client, generation), not of the moment of joining
	sg := NewRand(Mix(lw.c.Spec.GenSeed, uint64(cl.idx*64+cl.gen)))
	name := fmt.Sprintf("c%d.%d", cl.idx, cl.gen)
	var s *Sess
	if lw.net {
		s = NewAnySess(lw.c, lw.w, sg, name, wamp.URI(lw.realm), 512, nil)
	} else {
		s = lw.w.NewSess(name, wamp.URI(lw.realm), sg.Bool(), 512, nil)
	}
	s.grp = cl.grp // the client's actor, reader and handlers are one party
	cl.s = s
	cl.subs, cl.regs = nil, nil
	cl.waiting = map[wamp.ID]chan wamp.Message{}
	cl.retAt = map[wamp.ID]int64{}
	s.OnRecv = func(s *Sess, m wamp.Message) {
		var req wamp.ID
		switch x := m.(type) {
		case *wamp.Subscribed:
			req = x.Request
		case *wamp.Unsubscribed:
			req = x.Request
		case *wamp.Published:
			req = x.Request
		case *wamp.Registered:
			req = x.Request
		case *wamp.Unregistered:
			req = x.Request
		case *wamp.Result:
			req = x.Request
		case *wamp.Error:
			req = x.Request
		case *wamp.Invocation:
			tag := ""
			if len(x.Arguments) > 0 {
				tag, _ = wamp.AsString(x.Arguments[0])
			}
			// like a real client: the handler runs beside the reader, which must never be blocked by a send
			y := &wamp.Yield{Request: x.Request, Options: wamp.Dict{}, Arguments: wamp.List{tag, s.Name}}
			simrt.GoIn(s.Party(), "op:handler:"+s.Name, func() { s.Send(y) })
			return
		default:
			return
		}
		if ch, ok := cl.waiting[req]; ok {
			cl.retAt[req] = lw.stamp()
			delete(cl.waiting, req)
			ch <- m
		}
	}
	return s
}

// request sends m (request id req) and waits for the reply to that request.
func (lw *linWorld) request(cl *linClient, o *linOp, req wamp.ID, m wamp.Message) wamp.Message {
	ch := make(chan wamp.Message, 1)
	cl.waiting[req] = ch
	o.Sess = cl.s.ID
	o.Call = lw.stamp()
	lw.ops = append(lw.ops, o)
	if !cl.s.Send(m) {
		lw.c.Violf("fault-free concurrent run: the router did not take a %s from %s", m.MessageType(), cl.s.Name)
		o.Ret = linInf
		return nil
	}
	t := time.NewTimer(linPatience)
	defer t.Stop()
	select {
	case r := <-ch:
		o.Ret = cl.retAt[req]
		if e, ok := r.(*wamp.Error); ok {
			o.Err = string(e.Error)
		}
		return r
	case <-t.C:
		lw.c.Violf("fault-free concurrent run: request never answered within %v: %s %s", linPatience, cl.s.Name, Brief(m))
		o.Ret = linInf
		return nil
	}
}

func pickID(l []wamp.ID, r int) wamp.ID {
	if len(l) == 0 {
		return 424242
	}
	return l[r%len(l)]
}

func idsOf(v any) []wamp.ID {
	l, _ := wamp.AsList(v)
	var out []wamp.ID
	for _, e := range l {
		if id, ok := wamp.AsID(e); ok {
			out = append(out, id)
		}
	}
	return out
}

func (lw *linWorld) metaCall(cl *linClient, o *linOp, proc string, args wamp.List) *wamp.Result {
	req := cl.s.NextReq()
	r := lw.request(cl, o, req, &wamp.Call{Request: req, Options: wamp.Dict{}, Procedure: wamp.URI(proc), Arguments: args})
	res, _ := r.(*wamp.Result)
	return res
}

func (lw *linWorld) listByMatch(res *wamp.Result, filter map[wamp.ID]bool) []string {
	var out []string
	d, _ := wamp.AsDict(arg0(res))
	for _, m := range []string{"exact", "prefix", "wildcard"} {
		for _, id := range idsOf(d[m]) {
			if filter[id] {
				continue
			}
			out = append(out, fmt.Sprintf("%s:%d", matchLetter(m), id))
		}
	}
	sort.Strings(out)
	return out
}

// exec performs one templated operation for client cl.
func (lw *linWorld) exec(cl *linClient, idx int, t linTmpl) {
	c := lw.c
	base := func(part byte, kind string) *linOp {
		return &linOp{Idx: idx, Client: cl.idx, Part: part, Kind: kind, Blind: &lw.blind}
	}
	if cl.s == nil || cl.s.CliClosed || cl.s.RecvClosed {
		// (re)join first
		s := lw.newSess(cl)
		o := base('S', "join")
		o.Call = lw.stamp()
		lw.ops = append(lw.ops, o)
		if !s.Join() {
			c.Violf("fault-free concurrent run: %s could not join", s.Name)
			o.Ret = linInf
			o.Err = "no welcome"
			return
		}
		o.Ret = lw.stamp()
		o.OutID, o.Sess = s.ID, s.ID
		lw.allSess = append(lw.allSess, s.ID)
		lw.sessOf[s] = s.ID
		c.Probe("lin_join")
	}
	s := cl.s
	switch t.Kind {
	case "sub":
		o := base('B', "sub")
		o.URI, o.Match = t.URI, t.Match
		req := s.NextReq()
		opts := wamp.Dict{}
		if t.Match != "exact" {
			opts["match"] = t.Match
		}
		if r, ok := lw.request(cl, o, req, &wamp.Subscribe{Request: req, Options: opts, Topic: wamp.URI(t.URI)}).(*wamp.Subscribed); ok {
			o.OutID = r.Subscription
			if !hasID(cl.subs, r.Subscription) {
				cl.subs = append(cl.subs, r.Subscription)
			}
			if !hasID(lw.allSubs, r.Subscription) {
				lw.allSubs = append(lw.allSubs, r.Subscription)
			}
		}
	case "unsub":
		o := base('B', "unsub")
		switch {
		case t.R2%8 == 0:
			o.ID = pickID(lw.allSubs, t.R1)
		case t.R2%8 == 1:
			o.ID = 424242
		default:
			o.ID = pickID(cl.subs, t.R1)
		}
		req := s.NextReq()
		if _, ok := lw.request(cl, o, req, &wamp.Unsubscribe{Request: req, Subscription: o.ID}).(*wamp.Unsubscribed); ok {
			cl.subs = delID(cl.subs, o.ID)
		}
	case "pub":
		o := base('B', "pub")
		o.URI, o.ExclMe, o.Ack = t.URI, t.ExclMe, t.Ack
		o.Tag = fmt.Sprintf("P%d", idx)
		opts := wamp.Dict{}
		if t.Ack {
			opts["acknowledge"] = true
		}
		if !t.ExclMe {
			opts["exclude_me"] = false
		}
		if t.R2%5 == 0 && len(lw.allSess) > 0 {
			o.Excl = []wamp.ID{pickID(lw.allSess, t.R1)}
			opts["exclude"] = wamp.List{o.Excl[0]}
		}
		if t.R2%7 == 0 && len(lw.allSess) > 0 {
			o.HasEl = true
			o.Elig = []wamp.ID{pickID(lw.allSess, t.R1), pickID(lw.allSess, t.R1+1)}
			opts["eligible"] = wamp.List{o.Elig[0], o.Elig[1]}
		}
		req := s.NextReq()
		lw.pubs[o.Tag] = o
		m := &wamp.Publish{Request: req, Options: opts, Topic: wamp.URI(t.URI), Arguments: wamp.List{o.Tag}}
		if t.Ack {
			if r, ok := lw.request(cl, o, req, m).(*wamp.Published); ok {
				lw.pubReq[o.Tag] = r.Publication
			}
		} else {
			o.Sess = s.ID
			o.Call = lw.stamp()
			o.Ret = linInf
			lw.ops = append(lw.ops, o)
			s.Send(m)
		}
		c.Probe("lin_publish")
	case "reg":
		o := base('D', "reg")
		o.URI, o.Match, o.Invoke = t.URI, t.Match, t.Invoke
		opts := wamp.Dict{}
		if t.Match != "exact" {
			opts["match"] = t.Match
		}
		if t.Invoke != "single" {
			opts["invoke"] = t.Invoke
		}
		req := s.NextReq()
		if r, ok := lw.request(cl, o, req, &wamp.Register{Request: req, Options: opts, Procedure: wamp.URI(t.URI)}).(*wamp.Registered); ok {
			o.OutID = r.Registration
			if !hasID(cl.regs, r.Registration) {
				cl.regs = append(cl.regs, r.Registration)
			}
			if !hasID(lw.allRegs, r.Registration) {
				lw.allRegs = append(lw.allRegs, r.Registration)
			}
		}
	case "unreg":
		o := base('D', "unreg")
		switch {
		case t.R2%8 == 0:
			o.ID = pickID(lw.allRegs, t.R1)
		case t.R2%8 == 1:
			o.ID = 424242
		default:
			o.ID = pickID(cl.regs, t.R1)
		}
		req := s.NextReq()
		if _, ok := lw.request(cl, o, req, &wamp.Unregister{Request: req, Registration: o.ID}).(*wamp.Unregistered); ok {
			cl.regs = delID(cl.regs, o.ID)
		}
	case "call":
		o := base('D', "call")
		o.URI = t.URI
		o.Tag = fmt.Sprintf("K%d", idx)
		lw.calls[o.Tag] = o
		req := s.NextReq()
		r := lw.request(cl, o, req, &wamp.Call{Request: req, Options: wamp.Dict{}, Procedure: wamp.URI(t.URI), Arguments: wamp.List{o.Tag}})
		if res, ok := r.(*wamp.Result); ok {
			if len(res.Arguments) < 2 || res.Arguments[0] != any(o.Tag) {
				c.Violf("concurrent run: RESULT for call %s of %s carries another call's payload: %s", o.Tag, s.Name, Brief(res))
			}
		}
		c.Probe("lin_call")
	case "leave":
		oS, oB, oD := base('S', "leaveS"), base('B', "leaveB"), base('D', "leaveD")
		st := lw.stamp()
		for _, o := range []*linOp{oS, oB, oD} {
			o.Sess, o.Call, o.Ret = s.ID, st, linInf
			lw.ops = append(lw.ops, o)
		}
		if !t.Abrupt && (s.NetC != nil || s.WSC != nil) {
			// over a network transport what is still queued for a client when the router
			// closes the connection after GOODBYE may never be written
			lw.blind = append(lw.blind, s.ID)
		}
		if t.Abrupt {
			lw.blind = append(lw.blind, s.ID)
			s.CloseTransport()
			c.Fault("lin_abrupt_disconnect")
			return
		}
		s.Left = true
		if !s.Send(&wamp.Goodbye{Reason: wamp.CloseNormal, Details: wamp.Dict{}}) {
			c.Violf("fault-free concurrent run: GOODBYE of %s not taken", s.Name)
			return
		}
		tm := time.NewTimer(linPatience)
		select {
		case <-s.Dead:
			e := lw.stamp()
			oS.Ret, oB.Ret, oD.Ret = e, e, e
		case <-tm.C:
			c.Violf("fault-free concurrent run: transport of %s not closed within %v of its GOODBYE", s.Name, linPatience)
		}
		tm.Stop()
		s.CloseTransport()
		c.Probe("lin_leave")
	case "scount":
		o := base('S', "scount")
		if res := lw.metaCall(cl, o, "wamp.session.count", nil); res != nil {
			o.N, _ = wamp.AsInt64(arg0(res))
		}
	case "slist":
		o := base('S', "slist")
		if res := lw.metaCall(cl, o, "wamp.session.list", nil); res != nil {
			o.Set = idStrs(idsOf(arg0(res)))
		}
	case "sublist":
		o := base('B', "sublist")
		if res := lw.metaCall(cl, o, "wamp.subscription.list", nil); res != nil {
			o.Set = lw.listByMatch(res, nil)
		}
	case "sublookup":
		o := base('B', "sublookup")
		o.URI, o.Match = t.URI, t.Match
		args := wamp.List{t.URI}
		if t.Match != "exact" {
			args = append(args, wamp.Dict{"match": t.Match})
		}
		if res := lw.metaCall(cl, o, "wamp.subscription.lookup", args); res != nil {
			o.OutID, _ = wamp.AsID(arg0(res))
		}
	case "submatch":
		o := base('B', "submatch")
		o.URI, o.Match = t.URI, "topic"
		if res := lw.metaCall(cl, o, "wamp.subscription.match", wamp.List{t.URI}); res != nil {
			o.Set = idStrs(idsOf(arg0(res)))
		}
	case "subcount", "sublistsubs", "subget":
		o := base('B', t.Kind)
		o.ID = pickID(lw.allSubs, t.R1)
		proc := map[string]string{"subcount": "wamp.subscription.count_subscribers", "sublistsubs": "wamp.subscription.list_subscribers", "subget": "wamp.subscription.get"}[t.Kind]
		if res := lw.metaCall(cl, o, proc, wamp.List{o.ID}); res != nil {
			switch t.Kind {
			case "subcount":
				o.N, _ = wamp.AsInt64(arg0(res))
			case "sublistsubs":
				o.Set = idStrs(idsOf(arg0(res)))
			default:
				d, _ := wamp.AsDict(arg0(res))
				u, _ := wamp.AsString(d["uri"])
				m, _ := wamp.AsString(d["match"])
				if m == "" {
					m = "exact"
				}
				o.Set = []string{u, m}
			}
		}
	case "reglist":
		o := base('D', "reglist")
		if res := lw.metaCall(cl, o, "wamp.registration.list", nil); res != nil {
			o.Set = lw.listByMatch(res, nil) // the realm's own registrations are taken out at the end
			o.rawRegs = true
		}
	case "reglookup":
		o := base('D', "reglookup")
		o.URI, o.Match = t.URI, t.Match
		args := wamp.List{t.URI}
		if t.Match != "exact" {
			args = append(args, wamp.Dict{"match": t.Match})
		}
		if res := lw.metaCall(cl, o, "wamp.registration.lookup", args); res != nil {
			o.OutID, _ = wamp.AsID(arg0(res))
		}
	case "regmatch":
		o := base('D', "regmatch")
		o.URI, o.Match = t.URI, "procedure"
		if res := lw.metaCall(cl, o, "wamp.registration.match", wamp.List{t.URI}); res != nil {
			o.OutID, _ = wamp.AsID(arg0(res))
		}
	case "regcount", "reglistcallees", "regget":
		o := base('D', t.Kind)
		o.ID = pickID(lw.allRegs, t.R1)
		proc := map[string]string{"regcount": "wamp.registration.count_callees", "reglistcallees": "wamp.registration.list_callees", "regget": "wamp.registration.get"}[t.Kind]
		if res := lw.metaCall(cl, o, proc, wamp.List{o.ID}); res != nil {
			switch t.Kind {
			case "regcount":
				o.N, _ = wamp.AsInt64(arg0(res))
			case "reglistcallees":
				o.Set = idStrs(idsOf(arg0(res)))
			default:
				d, _ := wamp.AsDict(arg0(res))
				u, _ := wamp.AsString(d["uri"])
				m, _ := wamp.AsString(d["match"])
				if m == "" {
					m = "exact"
				}
				iv, _ := wamp.AsString(d["invoke"])
				if iv == "" {
					iv = "single"
				}
				o.Set = []string{u, m, iv}
			}
		}
	}
}

// linHot: per run one subscription pattern and one registration (procedure,
// policy) that most operations share, so that subscriptions with several
// subscribers and shared registrations with three and more callees occur.
type linHot struct {
	sub    [2]string
	topic  string
	reg    [2]string
	invoke string
	proc   string
}

func genLinHot(g *Rand) linHot {
	h := linHot{sub: PickOf(g, linSubPats[:7]), reg: PickOf(g, linRegPats[:7]), invoke: PickOf(g, linInvokes[1:])}
	for _, t := range linTopics {
		if MMatches(t, h.sub[0], h.sub[1]) {
			h.topic = t
		}
	}
	for _, p := range linProcs {
		if MMatches(p, h.reg[0], h.reg[1]) {
			h.proc = p
		}
	}
	return h
}

func genLinTmplHot(g *Rand, fl linFlavour, h linHot) linTmpl {
	t := genLinTmpl(g, fl)
	if !g.Chance(3, 5) {
		return t
	}
	switch t.Kind {
	case "sub":
		t.URI, t.Match = h.sub[0], h.sub[1]
	case "pub":
		if h.topic != "" {
			t.URI = h.topic
		}
	case "reg":
		t.URI, t.Match, t.Invoke = h.reg[0], h.reg[1], h.invoke
	case "call":
		if h.proc != "" {
			t.URI = h.proc
		}
	}
	return t
}

func genLinTmpl(g *Rand, fl linFlavour) linTmpl {
	t := linTmpl{R1: g.Intn(1000), R2: g.Intn(1000), ExclMe: g.Chance(3, 5), Ack: g.Chance(3, 4), Abrupt: g.Chance(1, 4)}
	var k int
	switch fl {
	case linPubSub:
		k = g.Weighted(30, 16, 30, 3, 1, 3, 5, 12)
	case linRPC:
		k = g.Weighted(3, 1, 3, 30, 16, 30, 5, 12)
	default:
		k = g.Weighted(14, 8, 8, 14, 8, 8, 10, 30)
	}
	switch k {
	case 0:
		p := PickOf(g, linSubPats)
		t.Kind, t.URI, t.Match = "sub", p[0], p[1]
	case 1:
		t.Kind = "unsub"
	case 2:
		t.Kind, t.URI = "pub", PickOf(g, linTopics)
		if g.Chance(1, 25) {
			t.URI = "a b"
		}
	case 3:
		p := PickOf(g, linRegPats)
		t.Kind, t.URI, t.Match, t.Invoke = "reg", p[0], p[1], PickOf(g, linInvokes)
	case 4:
		t.Kind = "unreg"
	case 5:
		t.Kind, t.URI = "call", PickOf(g, linProcs)
	case 6:
		t.Kind = "leave"
	default:
		var kinds []string
		switch fl {
		case linPubSub:
			kinds = []string{"sublist", "sublookup", "submatch", "subcount", "sublistsubs", "subget", "scount"}
		case linRPC:
			kinds = []string{"reglist", "reglookup", "regmatch", "regcount", "reglistcallees", "regget", "slist"}
		default:
			kinds = []string{"scount", "slist", "scount", "slist", "sublist", "sublookup", "submatch", "subcount", "sublistsubs", "subget", "reglist", "reglookup", "regmatch", "regcount", "reglistcallees", "regget"}
		}
		t.Kind = PickOf(g, kinds)
		switch t.Kind {
		case "sublookup":
			p := PickOf(g, linSubPats[:7])
			t.URI, t.Match = p[0], p[1]
		case "submatch":
			t.URI = PickOf(g, linTopics)
		case "reglookup":
			p := PickOf(g, linRegPats[:7])
			t.URI, t.Match = p[0], p[1]
		case "regmatch":
			t.URI = PickOf(g, linProcs)
		}
	}
	return t
}

func runLin(c *Ctx, fl linFlavour) { runLinRealms(c, fl, 1) }

// runLinRealms: nRealms > 1 runs an independent concurrent history in each of several
// realms of one router at the same time; every realm's history must be linearizable
// against its own model, and nothing tagged in one realm may show up in another (C11).
func runLinRealms(c *Ctx, fl linFlavour, nRealms int) {
	g := c.Gen
	strict := g.Chance(1, 4)
	// in a fifth of the single-realm runs the realm does not exist yet: it comes into being from
	// the router's realm template when the first clients - several at once - say HELLO
	tmpl := nRealms == 1 && g.Chance(1, 5)
	cfg := &router.Config{}
	var realms []string
	for i := 1; i <= nRealms; i++ {
		realms = append(realms, fmt.Sprintf("r%d", i))
		cfg.RealmConfigs = append(cfg.RealmConfigs, &router.RealmConfig{URI: wamp.URI(realms[i-1]), AnonymousAuth: true, AllowDisclose: true, StrictURI: strict})
	}
	if tmpl {
		cfg = &router.Config{RealmTemplate: &router.RealmConfig{AnonymousAuth: true, AllowDisclose: true, StrictURI: strict}}
	}
	w, err := NewWorld(c.S, cfg)
	if err != nil {
		c.Res.Tooling = "NewRouter: " + err.Error()
		return
	}
	c.W = w
	var ev int64
	net := g.Chance(1, 3)
	var lws []*linWorld
	for _, realm := range realms {
		lws = append(lws, &linWorld{c: c, w: w, ev: &ev, realm: realm, pubs: map[string]*linOp{}, calls: map[string]*linOp{}, pubReq: map[string]wamp.ID{}, internal: map[wamp.ID]bool{}, sessOf: map[*Sess]wamp.ID{}, strict: strict, net: net})
	}
	ncl := g.Range(2, 5)
	if nRealms > 1 {
		ncl = g.Range(2*nRealms, 3*nRealms)
	}
	per := g.Range(3, 9)
	if c.Thorough {
		per = g.Range(3, 14)
	}
	scripts := make([][]linTmpl, ncl)
	n := 0
	hot := genLinHot(g)
	for i := range scripts {
		k := g.Range(2, per)
		for j := 0; j < k; j++ {
			scripts[i] = append(scripts[i], genLinTmplHot(g, fl, hot))
		}
		n += k
	}
	c.Res.NOps = n
	var mirrorID, mirrorSub wamp.ID
	// an observer of every meta event in the first realm: what was announced must be what the
	// meta API shows once the run is quiescent, in the right order per object (p_mirror.go)
	var mirror *metaMirror
	if !tmpl {
		mirror = StartMirror(c, w, wamp.URI(realms[0]))
		if mirror.obs != nil {
			lws[0].allSess = append(lws[0].allSess, mirror.obs.ID)
			mirrorID, mirrorSub = mirror.obs.ID, mirror.ownSub
			lws[0].allSubs = append(lws[0].allSubs, mirror.ownSub)
		}
	}
	// bootstrap: one observer session per realm that stays (not with a template realm: there
	// the clients' first joins are the ones that create the realm)
	bootIDs := make([]wamp.ID, len(lws))
	if !tmpl {
		for i, lw := range lws {
			boot := w.NewSess("boot"+lw.realm, wamp.URI(lw.realm), true, 512, nil)
			if !boot.Join() {
				c.Res.Tooling = "boot session could not join"
				return
			}
			bootIDs[i] = boot.ID
			lw.allSess = append(lw.allSess, boot.ID)
		}
	} else {
		c.Probe("lin_template_realm")
	}
	if nRealms > 1 {
		c.Probe("lin_several_realms")
	}
	done := make(chan int)
	idx := 0
	var sample []string
	for i := range scripts {
		cl := &linClient{idx: i, grp: simrt.NewGroup()}
		lw := lws[i%len(lws)]
		script := scripts[i]
		first := idx
		idx += len(script)
		for _, t := range script {
			if len(sample) < 12 {
				sample = append(sample, fmt.Sprintf("c%d:%s", i, t.Kind))
			}
		}
		simrt.GoIn(cl.grp, fmt.Sprintf("actor:c%d", i), func() {
			defer func() { done <- i }()
			for j, t := range script {
				if !c.Kept(first + j) {
					continue
				}
				lw.exec(cl, first+j, t)
				if len(c.Res.Violations) > 0 {
					return
				}
			}
		})
	}
	for range scripts {
		<-done
	}
	simrt.WaitQuiescent("lin-settled")
	c.Res.Sample = fmt.Sprintf("%d concurrent clients in %d realm(s), strict=%v: %s", ncl, nRealms, strict, strings.Join(sample, " "))
	c.Res.Shape = fmt.Sprintf("%x", hashStr(c.Res.Sample)^c.Spec.SchedSeed)
	nops := 0
	for _, lw := range lws {
		nops += len(lw.ops)
	}
	c.Res.NonTrivial = c.S.MultiEnabled > 0 && nops > 3
	if w.Log.drops != nil {
		c.Probe("lin_skipped_router_dropped_messages")
		CloseAll(c, w, false)
		return
	}
	// outputs only known now: who received each publication, whom each call invoked
	for _, lw := range lws {
		pubIDs := map[string]wamp.ID{}
		for _, s := range w.Sess {
			if string(s.Realm) != lw.realm || (mirror != nil && s == mirror.obs) {
				continue
			}
			for _, r := range s.Inbox {
				switch x := r.Msg.(type) {
				case *wamp.Event:
					tag := ""
					if len(x.Arguments) > 0 {
						tag, _ = wamp.AsString(x.Arguments[0])
					}
					o := lw.pubs[tag]
					if o == nil {
						c.Violf("concurrent run: %s (realm %s) received an EVENT nobody published in its realm: %s", s.Name, lw.realm, Brief(x))
						continue
					}
					o.Set = append(o.Set, fmt.Sprintf("%d:%d", s.ID, x.Subscription))
					if p, ok := pubIDs[tag]; ok && p != x.Publication {
						c.Violf("concurrent run: receivers of publication %s see different publication ids %d and %d", tag, p, x.Publication)
					}
					pubIDs[tag] = x.Publication
					if p, ok := lw.pubReq[tag]; ok && p != x.Publication {
						c.Violf("concurrent run: EVENT of publication %s carries publication id %d, PUBLISHED said %d", tag, x.Publication, p)
					}
				case *wamp.Invocation:
					tag := ""
					if len(x.Arguments) > 0 {
						tag, _ = wamp.AsString(x.Arguments[0])
					}
					o := lw.calls[tag]
					if o == nil {
						c.Violf("concurrent run: %s (realm %s) received an INVOCATION for a call nobody made in its realm: %s", s.Name, lw.realm, Brief(x))
						continue
					}
					o.Set = append(o.Set, fmt.Sprintf("%d:%d", s.ID, x.Registration))
				}
			}
		}
		for _, o := range lw.ops {
			if o.rawRegs {
				// keep the registrations some client was told about; the others are the realm's own
				var keep []string
				for _, e := range o.Set {
					var id wamp.ID
					fmt.Sscanf(e[2:], "%d", &id)
					if hasID(lw.allRegs, id) {
						keep = append(keep, e)
					}
				}
				o.Set = keep
			}
			sort.Strings(o.Set)
		}
	}
	if mirror != nil {
		mirror.Check(c, w)
	}
	if len(c.Res.Violations) == 0 {
		type job struct {
			ops   []*linOp
			boot  wamp.ID
			realm string
		}
		var jobs []job
		for i, lw := range lws {
			jobs = append(jobs, job{lw.ops, bootIDs[i], lw.realm})
		}
		c.Res.post = func(res *Result) {
			for i, j := range jobs {
				var extra *linSub
				if i == 0 && mirrorID != 0 {
					extra = &linSub{ID: mirrorSub, Topic: "wamp.", Match: "prefix", Subs: []wamp.ID{mirrorID}}
				}
				linCheck(res, j.ops, j.boot, extra, strict, j.realm)
			}
		}
	}
	CloseAll(c, w, false)
}

var linPartName = map[byte]string{'S': "session table", 'B': "broker (subscriptions, publications)", 'D': "dealer (registrations, calls)"}

// linCheck runs outside the bubble (plain goroutines, real time).
func linCheck(res *Result, ops []*linOp, boot wamp.ID, extra *linSub, strict bool, realm string) {
	for _, part := range []byte{'S', 'B', 'D'} {
		var hist []porcupine.Operation
		var mine []*linOp
		for _, o := range ops {
			if o.Part != part {
				continue
			}
			ret := o.Ret
			if ret == 0 {
				ret = linInf
			}
			hist = append(hist, porcupine.Operation{ClientId: o.Client, Input: o, Output: o, Call: o.Call, Return: ret})
			mine = append(mine, o)
		}
		if len(hist) == 0 {
			continue
		}
		model := porcupine.Model{
			Init: func() interface{} {
				st := &linState{}
				if boot != 0 {
					st.Sess = addSorted(st.Sess, boot)
				}
				if extra != nil {
					// the meta-event observer: attached, and holding its subscription to "wamp."
					st.Sess = addSorted(st.Sess, extra.Subs[0])
					st.Subs = append(st.Subs, linSub{ID: extra.ID, Topic: extra.Topic, Match: extra.Match, Subs: append([]wamp.ID(nil), extra.Subs...)})
				}
				return st
			},
			Step:  linStep(strict),
			Equal: func(a, b interface{}) bool { return a.(*linState).Key() == b.(*linState).Key() },
		}
		switch porcupine.CheckOperationsTimeout(model, hist, 20*time.Second) {
		case porcupine.Ok:
			res.Probes["lin_checked_"+string(part)]++
			res.Probes["lin_ops_checked"] += len(hist)
		case porcupine.Unknown:
			res.Probes["lin_inconclusive_"+string(part)]++
		case porcupine.Illegal:
			var lines []string
			for _, o := range mine {
				lines = append(lines, o.String())
			}
			if len(lines) > 40 {
				lines = append(lines[:40], "...")
			}
			res.Violations = append(res.Violations, fmt.Sprintf("concurrent history of realm "+realm+"'s %s is not linearizable: no order of these operations consistent with their [invocation,return] stamps gives these answers from the sequential model:\n  %s", linPartName[part], strings.Join(lines, "\n  ")))
		}
	}
}
