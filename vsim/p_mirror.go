package vsim

import (
	"fmt"
	"sort"
	"strings"
	"time"

	"github.com/gammazero/nexus/v3/wamp"
)

// metaMirror (C18 under concurrency and faults): an observer session that joins before
// everybody else, subscribes to every meta topic (prefix "wamp.") with a queue that cannot
// fill up, and never stalls. At the end of a concurrent, fault-injecting workload - when the
// realm is quiescent - what the meta events announced must be what the meta API shows:
//
//	registrations created and not deleted   == wamp.registration.list (without the realm's own)
//	subscriptions created and not deleted   == wamp.subscription.list (plus the observer's own)
//	sessions joined and not left            == wamp.session.list
//
// and per object on_create precedes on_register/on_subscribe, on_unregister/on_unsubscribe
// precedes on_delete. Skipped when the observer was ended (kill_all) or lost a message.
type metaMirror struct {
	obs      *Sess
	internal map[wamp.ID]bool
	ownSub   wamp.ID
	preSubs  []wamp.ID
	ok       bool
}

func StartMirror(c *Ctx, w *World, realm wamp.URI) *metaMirror {
	m := &metaMirror{internal: map[wamp.ID]bool{}}
	defer c.RestoreDrops(c.PauseDrops()) // the observer's bootstrap is not part of the scenario
	obs := w.NewSess("mirror", realm, true, 8192, nil)
	if !obs.Join() {
		return m
	}
	m.obs = obs
	req := obs.NextReq()
	obs.Send(&wamp.Call{Request: req, Options: wamp.Dict{}, Procedure: "wamp.registration.list"})
	res, _ := obs.Await(time.Second, func(x wamp.Message) bool { r, ok := x.(*wamp.Result); return ok && r.Request == req }).(*wamp.Result)
	if res == nil {
		return m
	}
	d, _ := wamp.AsDict(arg0(res))
	for _, k := range []string{"exact", "prefix", "wildcard"} {
		for _, id := range idsOf(d[k]) {
			m.internal[id] = true
		}
	}
	// subscriptions that exist from the start (event-history configuration) were never announced
	q2 := obs.NextReq()
	obs.Send(&wamp.Call{Request: q2, Options: wamp.Dict{}, Procedure: "wamp.subscription.list"})
	r2, _ := obs.Await(time.Second, func(x wamp.Message) bool { r, ok := x.(*wamp.Result); return ok && r.Request == q2 }).(*wamp.Result)
	if r2 == nil {
		return m
	}
	d2, _ := wamp.AsDict(arg0(r2))
	for _, k := range []string{"exact", "prefix", "wildcard"} {
		m.preSubs = append(m.preSubs, idsOf(d2[k])...)
	}
	sreq := obs.NextReq()
	obs.Send(&wamp.Subscribe{Request: sreq, Options: wamp.Dict{"match": "prefix"}, Topic: "wamp."})
	sub, _ := obs.Await(time.Second, func(x wamp.Message) bool { r, ok := x.(*wamp.Subscribed); return ok && r.Request == sreq }).(*wamp.Subscribed)
	if sub == nil {
		return m
	}
	m.ownSub = sub.Subscription
	m.ok = true
	return m
}

func (m *metaMirror) call(proc string) *wamp.Result {
	req := m.obs.NextReq()
	if !m.obs.Send(&wamp.Call{Request: req, Options: wamp.Dict{}, Procedure: wamp.URI(proc)}) {
		return nil
	}
	res, _ := m.obs.Await(time.Second, func(x wamp.Message) bool { r, ok := x.(*wamp.Result); return ok && r.Request == req }).(*wamp.Result)
	return res
}

func sortedIDs(set map[wamp.ID]bool) string {
	var l []string
	for id, in := range set {
		if in {
			l = append(l, fmt.Sprint(id))
		}
	}
	sort.Strings(l)
	return "[" + strings.Join(l, " ") + "]"
}

// Check compares, at a quiescent moment, the announced state with the meta API's.
func (m *metaMirror) Check(c *Ctx, w *World) {
	c.DisarmDrops()
	// the order of the announcements of one object is C18's statement and looked at by C18's
	// check; the other checks that run a mirror compare the end state only
	order := c.Spec.Prop == "C18" || c.Spec.Prop == "LIN"
	if !m.ok || m.obs.RecvClosed || m.obs.CliClosed || LossyTo(c, w, m.obs) {
		c.Probe("meta_mirror_skipped")
		return
	}
	regs, subs, sess := map[wamp.ID]bool{}, map[wamp.ID]bool{m.ownSub: true}, map[wamp.ID]bool{m.obs.ID: true}
	created := map[string]bool{}
	deleted := map[string]bool{}
	for _, id := range m.preSubs {
		subs[id] = true
		created["sub"+fmt.Sprint(id)] = true
	}
	for _, r := range m.obs.Inbox {
		e, ok := r.Msg.(*wamp.Event)
		if !ok {
			continue
		}
		topic, _ := wamp.AsString(e.Details["topic"])
		var a0, a1 any
		if len(e.Arguments) > 0 {
			a0 = e.Arguments[0]
		}
		if len(e.Arguments) > 1 {
			a1 = e.Arguments[1]
		}
		objID := func() wamp.ID {
			// on_create: [session, details{id}]; the others: [session, id]
			if d, ok := wamp.AsDict(a1); ok {
				id, _ := wamp.AsID(d["id"])
				return id
			}
			id, _ := wamp.AsID(a1)
			return id
		}
		switch topic {
		case "wamp.session.on_join":
			if d, ok := wamp.AsDict(a0); ok {
				id, _ := wamp.AsID(d["session"])
				sess[id] = true
			}
		case "wamp.session.on_leave":
			id, _ := wamp.AsID(a0)
			sess[id] = false
		case "wamp.registration.on_create", "wamp.subscription.on_create":
			id := objID()
			k := topic[5:8] + fmt.Sprint(id)
			created[k], deleted[k] = true, false
			if topic[5] == 'r' {
				regs[id] = true
			} else {
				subs[id] = true
			}
		case "wamp.registration.on_register", "wamp.subscription.on_subscribe", "wamp.registration.on_unregister", "wamp.subscription.on_unsubscribe":
			id := objID()
			k := topic[5:8] + fmt.Sprint(id)
			if order && (!created[k] || deleted[k]) {
				c.Violf("meta events out of order: %s for %d which is not (or no longer) announced as created", topic, id)
			}
		case "wamp.registration.on_delete", "wamp.subscription.on_delete":
			id := objID()
			k := topic[5:8] + fmt.Sprint(id)
			if order && (!created[k] || deleted[k]) {
				c.Violf("meta events out of order: %s for %d which is not (or no longer) announced as created", topic, id)
			}
			deleted[k] = true
			if topic[5] == 'r' {
				regs[id] = false
			} else {
				subs[id] = false
			}
		}
	}
	listOf := func(res *wamp.Result, skip map[wamp.ID]bool) map[wamp.ID]bool {
		out := map[wamp.ID]bool{}
		d, _ := wamp.AsDict(arg0(res))
		for _, k := range []string{"exact", "prefix", "wildcard"} {
			for _, id := range idsOf(d[k]) {
				if !skip[id] {
					out[id] = true
				}
			}
		}
		return out
	}
	if res := m.call("wamp.registration.list"); res != nil {
		if got, want := sortedIDs(listOf(res, m.internal)), sortedIDs(regs); got != want {
			c.Violf("meta API and meta events disagree at a quiescent moment: wamp.registration.list shows %s, the registration meta events announced %s as existing", got, want)
		}
		c.Probe("meta_mirror_checked")
	}
	if res := m.call("wamp.subscription.list"); res != nil {
		if got, want := sortedIDs(listOf(res, nil)), sortedIDs(subs); got != want {
			c.Violf("meta API and meta events disagree at a quiescent moment: wamp.subscription.list shows %s, the subscription meta events announced %s as existing (the observer's own included)", got, want)
		}
	}
	if res := m.call("wamp.session.list"); res != nil {
		got := map[wamp.ID]bool{}
		for _, id := range idsOf(arg0(res)) {
			got[id] = true
		}
		if g, want := sortedIDs(got), sortedIDs(sess); g != want {
			c.Violf("meta API and meta events disagree at a quiescent moment: wamp.session.list shows %s, on_join/on_leave announced %s as attached", g, want)
		}
	}
}
