package vsim

import (
	"fmt"
	"strings"
	"time"

	"github.com/gammazero/nexus/v3/router"
	"github.com/gammazero/nexus/v3/router/auth"
	"github.com/gammazero/nexus/v3/simrt"
	"github.com/gammazero/nexus/v3/wamp"
)

func init() {
	Register(&PropDef{ID: "C01", Run: seqOrLin(seqC01, linPubSub), Config: seqOrLinConfig})
	Register(&PropDef{ID: "C03", Run: seqOrLin(seqC03, linRPC), Config: seqOrLinConfig})
	Register(&PropDef{ID: "C12", Run: func(c *Ctx) {
		if isLinRun(c.Spec.GenSeed) {
			runC12b(c) // identity disclosure on a shared registration whose callees differ, some not reading
			return
		}
		runSeq(c, seqC12)
	}, Config: seqOrLinConfig})
	Register(&PropDef{ID: "C12b", Run: runC12b, Drops: true})
	Register(&PropDef{ID: "C05", Run: func(c *Ctx) {
		if isLinRun(c.Spec.GenSeed) {
			runC05b(c) // concurrent workload, late joiners, kills; baseline at the end
			return
		}
		c.DisarmDrops() // exact comparison with the model: no injected losses
		runSeq(c, seqC05)
	}, Config: seqOrLinConfig, Drops: true})
	Register(&PropDef{ID: "C05b", Run: runC05b, Drops: true})
	Register(&PropDef{ID: "C18", Run: seqOrLin(seqC18, linMeta), Config: seqOrLinConfig})
	Register(&PropDef{ID: "LIN", Run: func(c *Ctx) { runLin(c, linFlavour(c.Gen.Intn(3))) }})
	Register(&PropDef{ID: "C10", Run: func(c *Ctx) { runSeq(c, seqC10) }, Config: seqConfig})
	Register(&PropDef{ID: "C13", Run: func(c *Ctx) { runSeq(c, seqC13) }, Config: seqConfig})
	Register(&PropDef{ID: "C15b", Run: func(c *Ctx) { runSeq(c, seqC15) }, Config: seqConfig})
}

// seqConfig: sequential scenarios explore histories; the schedule of the
// router's internal goroutines between two stimuli is still seeded.
func seqConfig(spec Spec, g *Rand) simrt.Config {
	sg := NewRand(spec.SchedSeed)
	cfg := simrt.Config{MaxSteps: 400000, Strategy: simrt.Strategy(sg.Intn(4)), ShuffleMaps: sg.Intn(4) != 0}
	if spec.Strategy >= 0 {
		cfg.Strategy = simrt.Strategy(spec.Strategy)
	}
	return cfg
}

// linShare: one run in linShare is a concurrent run checked for linearizability (p_lin.go).
const linShare = 4

func isLinRun(genSeed uint64) bool { return NewRand(genSeed^0x11a).Intn(linShare) == 0 }

func seqOrLin(fl seqFlavour, lf linFlavour) PropFunc {
	return func(c *Ctx) {
		if isLinRun(c.Spec.GenSeed) {
			runLin(c, lf)
			return
		}
		runSeq(c, fl)
	}
}

func seqOrLinConfig(spec Spec, g *Rand) simrt.Config {
	if !isLinRun(spec.GenSeed) {
		return seqConfig(spec, g)
	}
	sg := NewRand(spec.SchedSeed)
	cfg := simrt.Config{MaxSteps: 200000, Strategy: simrt.Strategy(sg.Intn(4)), ShuffleMaps: sg.Intn(4) != 0}
	if spec.Strategy >= 0 {
		cfg.Strategy = simrt.Strategy(spec.Strategy)
	}
	if sg.Intn(5) == 0 {
		cfg.DelayPermille = 5 + sg.Intn(40)
	}
	if sg.Intn(5) < 2 {
		cfg.FocusMod = 60 + sg.Intn(240)
		cfg.FocusBudget = 1 + sg.Intn(3)
	}
	return cfg
}

type seqFlavour int

const (
	seqC01 seqFlavour = iota
	seqC03
	seqC05
	seqC12
	seqC18
	seqC10
	seqC11
	seqC20
	seqC13
	seqC15
)

var seqRoles = map[string]string{"alice": "admin", "bob": "user", "carol": "user", "dave": "guest", "": ""}

func genRoles(g *Rand, fl seqFlavour) wamp.Dict {
	all := AllFeatures()
	if fl == seqC01 || g.Chance(1, 2) {
		// drop some identification / progress / cancel features
		sub := all["subscriber"].(wamp.Dict)["features"].(wamp.Dict)
		if g.Bool() {
			delete(sub, "publisher_identification")
		}
		ce := all["callee"].(wamp.Dict)["features"].(wamp.Dict)
		for _, f := range []string{"caller_identification", "progressive_call_results", "call_canceling", "call_timeout"} {
			if g.Chance(1, 3) {
				delete(ce, f)
			}
		}
		if g.Chance(1, 4) {
			delete(ce, "progressive_call_invocations")
		}
		if g.Chance(1, 5) {
			delete(all["caller"].(wamp.Dict)["features"].(wamp.Dict), "progressive_call_invocations")
		}
	}
	return all
}

var c01Topics = []string{"a", "a.b", "a.b.c", "b", "a.c", "t.x"}
var c01Patterns = []string{"a", "a.", "a.b", "a.b.", "", "b", "t."}
var c01Wild = []string{"a..c", ".b", "a.", "..", "a.b.", ".", "", "t."}
var c01Bad = []string{"a b", "a#b", "a..b", ".a", "a.", ""}

func genPubOpts(g *Rand, nslots int, discloseOften bool) wamp.Dict {
	o := wamp.Dict{}
	if g.Chance(2, 3) {
		o["acknowledge"] = true
	}
	if g.Chance(1, 3) {
		o["exclude_me"] = g.Chance(1, 3)
	}
	slotList := func() wamp.List {
		l := wamp.List{}
		for i := g.Range(1, 2); i > 0; i-- {
			l = append(l, fmt.Sprintf("@slot%d", g.Intn(nslots)))
		}
		return l
	}
	names := func(vals ...string) wamp.List {
		l := wamp.List{}
		for i := g.Range(1, 2); i > 0; i-- {
			l = append(l, vals[g.Intn(len(vals))])
		}
		return l
	}
	if g.Chance(1, 4) {
		o["exclude"] = slotList()
	}
	if g.Chance(1, 4) {
		o["eligible"] = slotList()
	}
	if g.Chance(1, 5) {
		o[g.Pick("exclude_authid", "eligible_authid")] = names("alice", "bob", "carol", "zed")
	}
	if g.Chance(1, 5) {
		o[g.Pick("exclude_authrole", "eligible_authrole")] = names("admin", "user", "trusted", "guest")
	}
	if g.Chance(1, 5) {
		o[g.Pick("exclude_xattr", "eligible_xattr")] = names("v1", "v2", "v3")
	}
	if g.Chance(1, 6) || (discloseOften && g.Chance(1, 2)) {
		o["disclose_me"] = true
	}
	return o
}

func genJoin(g *Rand, slot int, realm string, fl seqFlavour) SOp {
	op := SOp{Kind: "join", Slot: slot, Realm: realm, Local: g.Bool(), Roles: genRoles(g, fl)}
	op.Authid = g.Pick("alice", "bob", "carol", "dave")
	op.Role = seqRoles[op.Authid]
	if g.Chance(2, 3) {
		op.Xattr = g.Pick("v1", "v2")
	}
	if fl == seqC20 {
		op.Scribble = g.Chance(1, 3)
	}
	if fl == seqC10 && g.Chance(1, 3) {
		op.QSize = g.Range(1, 2) // a pipelining client can fill this
	}
	if fl == seqC15 {
		op.Net = g.Pick("", "raw", "raw", "ws", "ws")
		op.Ser = g.Intn(3)
	}
	if fl == seqC12 {
		op.Scribble = g.Chance(1, 3)
		switch g.Intn(4) {
		case 0:
			op.Transport = wamp.Dict{"auth": wamp.Dict{"cookie": "secret"}}
		case 1:
			op.Transport = wamp.Dict{"auth": wamp.Dict{"cookie": "secret"}, "peer": "10.0.0.1"}
		case 2:
			op.Transport = wamp.Dict{"peer": "10.0.0.2"}
		}
	}
	return op
}

func genSeqOps(g *Rand, fl seqFlavour, nslots, n int, thorough bool) []SOp {
	var ops []SOp
	// slot 0: catch-all observer
	obs := SOp{Kind: "join", Slot: 0, Realm: "r1", Local: g.Bool(), Roles: AllFeatures(), Authid: "alice", Role: "admin", Xattr: "v1"}
	ops = append(ops, obs, SOp{Kind: "sub", Slot: 0, URI: "", Opts: wamp.Dict{"match": "prefix"}})
	for s := 1; s < nslots; s++ {
		ops = append(ops, genJoin(g, s, "r1", fl))
	}
	uniq := 0
	shURI, shPol := g.Pick("p.a", "p.b"), g.Pick("roundrobin", "first", "last", "random")
	for len(ops) < n {
		op := SOp{Slot: g.Intn(nslots)}
		var w []int
		switch fl {
		case seqC01:
			//           join leave sub unsub pub reg unreg call yield inverr cancel
			w = []int{2, 2, 10, 5, 12, 0, 0, 0, 0, 0, 0, 2} // meta: only wamp.session.modify_details
		case seqC03:
			w = []int{2, 2, 1, 0, 1, 9, 4, 10, 7, 3, 0, 1} // (a few meta calls: departure by kill is a departure too)
		case seqC05:
			w = []int{3, 6, 4, 2, 4, 5, 2, 7, 3, 2, 3, 4}
		case seqC18:
			w = []int{3, 4, 5, 3, 3, 5, 3, 3, 2, 1, 1, 12}
		case seqC10:
			w = []int{2, 2, 6, 3, 8, 6, 3, 8, 5, 2, 3, 3}
		case seqC11:
			w = []int{2, 2, 6, 4, 7, 6, 4, 7, 5, 2, 3, 6}
		case seqC13:
			w = []int{1, 2, 0, 0, 0, 5, 1, 12, 6, 3, 10, 0, 8}
		default:
			w = []int{2, 3, 5, 3, 6, 6, 3, 7, 5, 2, 3, 0}
		}
		for len(w) < 15 {
			w = append(w, 0)
		}
		if fl == seqC10 {
			w[13] = 4
		}
		// further chunks of progressive call invocations
		switch fl {
		case seqC03, seqC13:
			w[14] = 4
		case seqC12, seqC05, seqC11, seqC15:
			w[14] = 2
		}
		kind := []string{"join", "leave", "sub", "unsub", "pub", "reg", "unreg", "call", "yield", "inverr", "cancel", "meta", "sleep", "refburst", "chunk"}[g.Weighted(w...)]
		op.Kind = kind
		uniq++
		switch kind {
		case "refburst":
			op.K = g.Intn(1000)
			op.Var = g.Intn(3)
		case "join":
			op = genJoin(g, op.Slot, "r1", fl)
		case "leave":
			if op.Slot == 0 {
				continue
			}
			op.How = g.Weighted(3, 3, 1)
			if fl == seqC10 && op.How == 2 {
				op.How = 1 // with an Authorizer an unexpected message type is first of all refused
			}
		case "sub":
			if fl == seqC18 && g.Chance(1, 4) {
				// further subscribers of the meta topics, under several policies
				switch g.Intn(3) {
				case 0:
					op.URI = g.Pick("wamp.subscription.on_subscribe", "wamp.subscription.on_create", "wamp.session.on_join", "wamp.session.on_leave", "wamp.registration.on_register", "wamp.subscription.on_unsubscribe")
					op.Opts = wamp.Dict{}
				case 1:
					op.URI = g.Pick("wamp.subscription.", "wamp.", "wamp.session.", "wamp.registration.")
					op.Opts = wamp.Dict{"match": "prefix"}
				default:
					op.URI = g.Pick("wamp..on_subscribe", "wamp.session.", "wamp..on_create")
					op.Opts = wamp.Dict{"match": "wildcard"}
				}
				ops = append(ops, op)
				continue
			}
			switch g.Weighted(6, 4, 3, 1) {
			case 0:
				op.URI = c01Topics[g.Intn(len(c01Topics))]
				if g.Bool() {
					op.Opts = wamp.Dict{"match": "exact"}
				} else {
					op.Opts = wamp.Dict{}
				}
			case 1:
				op.URI = c01Patterns[g.Intn(len(c01Patterns))]
				op.Opts = wamp.Dict{"match": "prefix"}
			case 2:
				op.URI = c01Wild[g.Intn(len(c01Wild))]
				op.Opts = wamp.Dict{"match": "wildcard"}
			case 3:
				op.URI = c01Bad[g.Intn(len(c01Bad))]
				op.Opts = wamp.Dict{"match": g.Pick("exact", "prefix", "wildcard")}
			}
		case "unsub":
			op.K = g.Intn(8)
			op.Var = g.Weighted(6, 2, 1)
			if fl == seqC11 && g.Chance(1, 3) {
				op.Var = 3
			}
		case "pub":
			op.URI = c01Topics[g.Intn(len(c01Topics))]
			if g.Chance(1, 12) {
				op.URI = c01Bad[g.Intn(len(c01Bad))]
			}
			op.Opts = genPubOpts(g, nslots, fl == seqC12)
			op.Args = wamp.List{fmt.Sprintf("m%d", uniq)}
			if g.Chance(1, 3) {
				op.Kw = wamp.Dict{"k": uniq, "nested": wamp.Dict{"l": wamp.List{1, "x"}}}
			}
			if fl == seqC15 && g.Chance(1, 6) {
				op.Args = append(op.Args, complex(1, 2)) // unserializable; only an in-process publisher can send it
				op.Kw = nil
			}
		case "reg":
			if (fl == seqC13 && g.Chance(3, 4)) || (fl == seqC12 && g.Chance(1, 2)) || (fl == seqC03 && g.Chance(1, 3)) || (fl == seqC05 && g.Chance(1, 5)) {
				// few procedures, shared policies: callees with different
				// feature sets end up on one registration
				op.URI = g.Pick("p.a", "p.b")
				op.Opts = wamp.Dict{"invoke": g.Pick("roundrobin", "first", "last", "random")}
				if g.Chance(3, 4) {
					// one procedure and policy per script collects most of them:
					// registrations with three and more callees
					op.URI = shURI
					op.Opts = wamp.Dict{"invoke": shPol}
				}
				if g.Chance(1, 2) && fl == seqC13 {
					op.Opts["forward_timeout"] = true
				}
				if fl == seqC12 && g.Chance(1, 4) {
					op.Opts["disclose_caller"] = true
				}
				ops = append(ops, op)
				continue
			}
			switch g.Weighted(6, 3, 3, 1, 1) {
			case 0:
				op.URI = g.Pick("p.a", "p.a.b", "p.b", "p.a.b.c")
				op.Opts = wamp.Dict{}
			case 1:
				op.URI = g.Pick("p.", "p.a", "p.a.", "p.a.b", "")
				op.Opts = wamp.Dict{"match": "prefix"}
			case 2:
				op.URI = g.Pick("p..b", "p.a.", ".a.b", "p..", "p.a..c")
				op.Opts = wamp.Dict{"match": "wildcard"}
			case 3:
				op.URI = g.Pick("wamp.x", "wamp.session.count", "wamp.")
				op.Opts = wamp.Dict{"match": g.Pick("exact", "prefix")}
			case 4:
				op.URI = g.Pick("p a", "p..a", "p#")
				op.Opts = wamp.Dict{}
			}
			if g.Chance(1, 2) {
				op.Opts["invoke"] = g.Pick("single", "first", "last", "roundrobin", "random", "roundrobin", "bogus")
			}
			if g.Chance(1, 5) || (fl == seqC12 && g.Chance(1, 3)) {
				op.Opts["disclose_caller"] = true
			}
			if g.Chance(1, 6) || (fl == seqC13 && g.Chance(1, 3)) {
				op.Opts["forward_timeout"] = true
			}
		case "unreg":
			op.K = g.Intn(8)
			op.Var = g.Weighted(6, 2, 1)
			if fl == seqC11 && g.Chance(1, 3) {
				op.Var = 3
			}
		case "call":
			op.URI = g.Pick("p.a", "p.a.b", "p.b", "p.a.b.c", "p.a.x", "p.x.b", "p.a.b.c.d", "q.none", "x.a.b")
			op.Opts = wamp.Dict{}
			if g.Chance(1, 3) {
				op.Opts["receive_progress"] = true
			}
			if g.Chance(1, 6) || (fl == seqC12 && g.Chance(1, 2)) {
				op.Opts["disclose_me"] = true
			}
			if g.Chance(1, 8) {
				op.Opts["timeout"] = 100000
			}
			if fl == seqC13 && g.Chance(2, 3) {
				op.Opts["timeout"] = []int{1, 2, 5, 100, 1000, 5000, 30000}[g.Intn(7)]
			}
			if w[14] > 0 && g.Chance(1, 4) {
				op.Opts["progress"] = true // first chunk of a progressive call invocation
			}
			op.Args = wamp.List{fmt.Sprintf("c%d", uniq), uniq}
			if g.Chance(1, 3) {
				op.Kw = wamp.Dict{"k": uniq}
			}
		case "chunk":
			op.K = g.Intn(8)
			op.Prog = g.Chance(1, 2) // more to come
			op.Args = wamp.List{fmt.Sprintf("k%d", uniq), uniq}
		case "yield":
			op.K = g.Intn(8)
			op.Var = g.Weighted(8, 2, 1)
			if fl == seqC11 && g.Chance(1, 4) {
				op.Var = 3
			}
			op.Prog = g.Chance(1, 4)
			op.Args = wamp.List{fmt.Sprintf("y%d", uniq)}
			if g.Chance(1, 3) {
				op.Kw = wamp.Dict{"r": uniq}
			}
		case "inverr":
			op.K = g.Intn(8)
			op.Var = g.Weighted(8, 2, 1)
			op.URI = g.Pick("app.error.x", "wamp.error.canceled", "wamp.error.invalid_argument")
			op.Args = wamp.List{fmt.Sprintf("e%d", uniq)}
		case "sleep":
			op.K = []int{1, 2, 5, 99, 100, 101, 1000, 5000, 30000, 90000}[g.Intn(10)]
		case "meta":
			genMeta(g, &op, nslots, fl)
		case "cancel":
			op.K = g.Intn(8)
			op.Var = g.Weighted(6, 2, 1, 0, 2) // own pending / somebody else's / unknown / (3: other realm) / 4: an earlier request of its own that is finished or was refused
			if fl == seqC11 && g.Chance(1, 4) {
				op.Var = 3
			}
			op.Opts = wamp.Dict{}
			if g.Chance(3, 4) {
				op.Opts["mode"] = g.Pick("skip", "kill", "killnowait", "bogus")
			}
		}
		ops = append(ops, op)
		if op.Kind == "meta" && strings.HasPrefix(op.URI, "wamp.session.kill") && fl != seqC01 {
			// a kill may have ended the catch-all observer: it comes back (a join of an occupied
			// slot is skipped), so that what later session ends announce - or fail to - is seen
			ops = append(ops, obs, SOp{Kind: "sub", Slot: 0, URI: "", Opts: wamp.Dict{"match": "prefix"}})
		}
	}
	return ops
}

// resolveOpts replaces "@slotN" placeholders by the id of the session
// currently in that slot (or an id nobody has).
func (q *Seq) resolveOpts(o wamp.Dict) wamp.Dict {
	if o == nil {
		return nil
	}
	out := wamp.Dict{}
	for k, v := range o {
		if l, ok := v.(wamp.List); ok {
			nl := wamp.List{}
			for _, e := range l {
				if s, ok := e.(string); ok && len(s) > 5 && s[:5] == "@slot" {
					var n int
					fmt.Sscanf(s[5:], "%d", &n)
					if sess, _ := q.cur(n); sess != nil {
						nl = append(nl, sess.ID)
					} else {
						nl = append(nl, wamp.ID(424242))
					}
					continue
				}
				nl = append(nl, e)
			}
			out[k] = nl
			continue
		}
		out[k] = v
	}
	return out
}

func runSeq(c *Ctx, fl seqFlavour) {
	g := c.Gen
	strict := g.Chance(1, 4)
	allowDisclose := g.Chance(2, 3)
	metaKill := fl == seqC05 || fl == seqC18 || fl == seqC03
	metaModify := fl == seqC01 || fl == seqC18 || fl == seqC12 || fl == seqC05
	rc := &router.RealmConfig{URI: "r1", StrictURI: strict, AllowDisclose: allowDisclose, AnonymousAuth: true, EnableMetaKill: metaKill,
		MetaStrict:       fl == seqC18 && g.Chance(1, 3),
		EnableMetaModify: metaModify,
		Authenticators:   []auth.Authenticator{&StaticAuth{Roles: seqRoles}}}
	var authz *TableAuthz
	if fl == seqC10 {
		authz = &TableAuthz{Seed: c.Spec.GenSeed, DenyPerm: g.Range(100, 350), FailPerm: g.Range(0, 120), RewrPerm: g.Range(0, 250)}
		if g.Chance(1, 6) {
			authz.DenyPerm = 1000 // everything refused: meta events must still flow
		}
		rc.Authorizer = authz
		rc.RequireLocalAuthz = g.Chance(1, 3)
		rc.RequireLocalAuth = g.Chance(1, 3)
	}
	rcfg := &router.Config{RealmConfigs: []*router.RealmConfig{rc}}
	if (fl == seqC10 || fl == seqC18) && g.Chance(1, 3) {
		// the realm comes into existence from the template when the first session asks for it
		t := *rc
		t.URI = "template"
		rcfg = &router.Config{RealmTemplate: &t}
		c.Probe("realm_from_template")
	}
	w, err := NewWorld(c.S, rcfg)
	if err != nil {
		c.Res.Tooling = "NewRouter: " + err.Error()
		return
	}
	c.W = w
	nslots := g.Range(3, 6)
	n := g.Range(12, 40)
	if c.Thorough {
		n = g.Range(20, 120)
	}
	ops := genSeqOps(g, fl, nslots, n, c.Thorough)
	c.Res.NOps = len(ops)
	c.Res.Sample = fmt.Sprintf("strict=%v disclose=%v | %s", strict, allowDisclose, SOpsSample(ops, c, 40))
	c.Res.Shape = fmt.Sprintf("%x", hashStr(c.Res.Sample))
	q := NewSeq(c, w)
	mr := NewMRealm("r1", strict, allowDisclose)
	if fl == seqC01 || fl == seqC03 {
		mr.Lenient = true
		q.IgnoreMeta = true
	}
	q.MetaKill = metaKill
	mr.MetaModify = metaModify
	if authz != nil {
		q.Authz = authz
		q.LocalAuthz = rc.RequireLocalAuthz
	}
	var baseline string
	if fl == seqC05 {
		q.IgnoreMeta = true
		baseline = snapshotText(w)
	}
	if fl == seqC13 {
		q.IgnoreMeta = true
		mr.Lenient = true
	}
	if fl == seqC15 {
		q.NetFaults = NetFaults{MaxFrag: []int{0, 1, 3, 7, 64}[g.Intn(5)], Window: []int{0, 16, 64, 700, 4096}[g.Intn(5)]}
	}
	if fl == seqC12 {
		q.IgnoreMeta = true
		q.CheckSenderPayload = true
	}
	q.AddRealm(mr)
	learnt := false
	for i, op := range ops {
		if !c.Kept(i) {
			continue
		}
		if !learnt && op.Kind != "join" && metaKill {
			// first non-join step: some session exists (or none: then nothing to learn from)
			for slot := range q.curIdx {
				if s, _ := q.cur(slot); s != nil {
					q.LearnInternalRegs(slot)
					learnt = true
					break
				}
			}
		}
		op.Opts = q.resolveOpts(op.Opts)
		q.Exec(op)
		if len(c.Res.Violations) > 0 || len(w.Viol) > 0 {
			break
		}
	}
	c.Res.NonTrivial = c.Res.Probes["publish_multi_recipient"] > 0 || c.Res.Probes["call_routed"] > 1
	simrt.WaitQuiescent("end")
	if fl == seqC12 {
		CheckImmutable(c, w)
	}
	if fl == seqC05 && len(c.Res.Violations) == 0 && len(w.Viol) == 0 {
		// every session leaves; all calls complete; then the router must be back at its baseline
		for slot := range q.curIdx {
			if s, _ := q.cur(slot); s != nil {
				q.Exec(SOp{Kind: "leave", Slot: slot, How: g.Intn(2)})
			}
		}
		simrt.WaitQuiescent("all-left")
		time.Sleep(3 * time.Minute)
		simrt.WaitQuiescent("all-left-timers")
		if now := snapshotText(w); now != baseline {
			c.Violf("router state after all sessions left differs from the baseline: baseline %s, now %s", baseline, now)
		}
	}
	CloseAll(c, w, false)
}

func genMeta(g *Rand, op *SOp, nslots int, fl seqFlavour) {
	k := fmt.Sprint(g.Intn(6))
	sessRef := func() any {
		switch g.Intn(6) {
		case 0:
			return "@sess?"
		case 1:
			return fmt.Sprintf("@sess:%d", op.Slot) // own id
		}
		return fmt.Sprintf("@sess:%d", g.Intn(nslots))
	}
	sRef := func() any {
		if g.Chance(1, 6) {
			return "@S?"
		}
		return "@S:" + k
	}
	rRef := func() any {
		if g.Chance(1, 6) {
			return "@R?"
		}
		return "@R:" + k
	}
	uri := func(procs bool) any {
		if procs {
			return g.Pick("p.a", "p.a.b", "p.b", "p.a.b.c", "p.a.x", "p.x.b", "p.", "p..b", "q.none")
		}
		return g.Pick("a", "a.b", "a.b.c", "b", "a.", "a..c", "", "t.x", "zzz")
	}
	matchOpt := func() any {
		switch g.Intn(4) {
		case 0:
			return wamp.Dict{"match": "prefix"}
		case 1:
			return wamp.Dict{"match": "wildcard"}
		case 2:
			return wamp.Dict{"match": "exact"}
		}
		return wamp.Dict{}
	}
	weights := []int{3, 3, 4, 3, 3, 3, 3, 3, 3, 3, 3, 3, 3, 3, 2, 1, 1, 1, 3, 2, 4}
	if fl == seqC05 || (fl == seqC11 && g.Bool()) {
		// ends by kill, testaments: for C11 the same history runs in every realm, and what a
		// kill in one realm leaves behind (process-wide state) shows in the others
		weights = []int{1, 1, 1, 0, 0, 0, 0, 0, 0, 0, 0, 0, 0, 0, 4, 2, 2, 1, 6, 3, 1}
	}
	if fl == seqC01 {
		// the broker's business only: a session's attributes change under its subscriptions
		weights = []int{0, 0, 0, 0, 0, 0, 0, 0, 0, 0, 0, 0, 0, 0, 0, 0, 0, 0, 0, 0, 1}
	}
	switch g.Weighted(weights...) {
	case 0:
		op.URI = "wamp.session.count"
		if g.Chance(1, 3) {
			op.Args = wamp.List{wamp.List{g.Pick("admin", "user", "trusted", "guest"), "user"}}
		}
		if g.Chance(1, 10) {
			op.Args = wamp.List{5}
		}
	case 1:
		op.URI = "wamp.session.list"
		if g.Chance(1, 3) {
			op.Args = wamp.List{wamp.List{g.Pick("admin", "user", "trusted", "guest")}}
		}
	case 2:
		op.URI = "wamp.session.get"
		op.Args = wamp.List{sessRef()}
		if g.Chance(1, 10) {
			op.Args = wamp.List{}
		}
	case 3:
		op.URI = "wamp.registration.list"
	case 4:
		op.URI = "wamp.registration.lookup"
		op.Args = wamp.List{uri(true)}
		if g.Bool() {
			op.Args = append(op.Args, matchOpt())
		}
	case 5:
		op.URI = "wamp.registration.match"
		op.Args = wamp.List{uri(true)}
	case 6:
		op.URI = "wamp.registration.get"
		op.Args = wamp.List{rRef()}
	case 7:
		op.URI = g.Pick("wamp.registration.list_callees", "wamp.registration.count_callees")
		op.Args = wamp.List{rRef()}
	case 8:
		op.URI = "wamp.subscription.list"
	case 9:
		op.URI = "wamp.subscription.lookup"
		op.Args = wamp.List{uri(false)}
		if g.Bool() {
			op.Args = append(op.Args, matchOpt())
		}
	case 10:
		op.URI = "wamp.subscription.match"
		op.Args = wamp.List{uri(false)}
	case 11:
		op.URI = "wamp.subscription.get"
		op.Args = wamp.List{sRef()}
	case 12:
		op.URI = "wamp.subscription.list_subscribers"
		op.Args = wamp.List{sRef()}
	case 13:
		op.URI = "wamp.subscription.count_subscribers"
		op.Args = wamp.List{sRef()}
	case 14:
		op.URI = "wamp.session.kill"
		op.Args = wamp.List{sessRef()}
		if g.Bool() {
			op.Kw = wamp.Dict{"reason": g.Pick("app.kill.reason", "wamp.close.normal", "bad reason", "wamp.close.system_shutdown", "wamp.close.goodbye_and_out", "wamp.error.canceled"), "message": "bye"}
		}
	case 15:
		op.URI = "wamp.session.kill_by_authid"
		op.Args = wamp.List{g.Pick("alice", "bob", "carol", "dave", "zed")}
	case 16:
		op.URI = "wamp.session.kill_by_authrole"
		op.Args = wamp.List{g.Pick("admin", "user", "trusted", "guest")}
	case 17:
		op.URI = "wamp.session.kill_all"
	case 18:
		op.URI = "wamp.session.add_testament"
		op.Args = wamp.List{g.Pick("a", "a.b", "t.x", "b"), wamp.List{fmt.Sprintf("will%d", g.Intn(1000))}, wamp.Dict{}}
		op.Kw = wamp.Dict{}
		if g.Bool() {
			op.Kw["scope"] = g.Pick("destroyed", "detached", "bogus")
		}
		if g.Chance(1, 3) {
			op.Kw["publish_options"] = wamp.Dict{"exclude_authrole": wamp.List{"user"}}
		}
	case 19:
		op.URI = "wamp.session.flush_testaments"
		op.Kw = wamp.Dict{}
		if g.Bool() {
			op.Kw["scope"] = g.Pick("destroyed", "detached")
		}
	case 20:
		op.URI = "wamp.session.modify_details"
		delta := wamp.Dict{}
		switch g.Intn(6) {
		case 0:
			delta["authrole"] = g.Pick("admin", "user", "guest", "trusted")
		case 1:
			delta["authid"] = g.Pick("alice", "bob", "carol", "zed")
		case 2:
			delta["xattr"] = g.Pick("v1", "v2", "v3")
		case 3:
			delta[g.Pick("xattr", "authrole")] = nil
		case 4:
			delta["xattr"], delta["authrole"] = g.Pick("v1", "v2"), g.Pick("admin", "user")
		case 5:
			delta["session"] = 12345
		}
		op.Args = wamp.List{sessRef(), delta}
		if g.Chance(1, 12) {
			op.Args = wamp.List{sessRef()}
		}
	}
}
