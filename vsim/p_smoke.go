package vsim

import (
	"github.com/gammazero/nexus/v3/router"
	"github.com/gammazero/nexus/v3/simrt"
	"github.com/gammazero/nexus/v3/wamp"
)

func init() {
	Register(&PropDef{ID: "SMOKE", Run: runSmoke})
}

// runSmoke: three sessions, subscribe, publish, leave, close. Used by the
// determinism self-test.
func runSmoke(c *Ctx) {
	w, err := NewWorld(c.S, &router.Config{RealmConfigs: []*router.RealmConfig{{URI: "r1", AnonymousAuth: true, AllowDisclose: true}}})
	if err != nil {
		c.Res.Tooling = err.Error()
		return
	}
	c.W = w
	n := 3 + c.Gen.Intn(3)
	done := make(chan int)
	for i := 0; i < n; i++ {
		s := w.NewSess(string(rune('a'+i)), "r1", c.Gen.Bool(), 8, nil)
		simrt.GoIn(s.Party(), "actor:"+s.Name, func() {
			if s.Join() {
				s.Send(&wamp.Subscribe{Request: s.NextReq(), Topic: "t.x", Options: wamp.Dict{}})
				for k := 0; k < 3; k++ {
					s.Send(&wamp.Publish{Request: s.NextReq(), Topic: "t.x", Options: wamp.Dict{"acknowledge": true}, Arguments: wamp.List{s.Name, k}})
				}
				if s.Idx%2 == 0 {
					s.Send(&wamp.Goodbye{Reason: wamp.CloseNormal, Details: wamp.Dict{}})
				}
			}
			done <- s.Idx
		})
	}
	for i := 0; i < n; i++ {
		<-done
	}
	simrt.WaitQuiescent("smoke")
	w.R.Close()
	c.Res.NonTrivial = true
	c.Res.NOps = n
}
