package vsim

import (
	"os"
	"sort"
	"strconv"
	"strings"
)

// Race-detector build ("C04R"): the same scenarios run in a binary built with
// -race. The scheduler hides its own synchronisation from the detector (see
// simrt/race_on.go), so the detector reports accesses the program itself left
// unordered although the simulation executes one goroutine at a time. Reports
// are read back from the detector's log after every run.

// raceMix lists the scenario families run under the detector.
var raceMix = []string{"C04", "C04", "C02", "C06", "C06", "C07", "C08", "C05", "C18", "C11", "C02", "C07", "C20"}

var raceLogOff int64

func raceLogFile() string {
	for _, f := range strings.Fields(os.Getenv("GORACE")) {
		if strings.HasPrefix(f, "log_path=") {
			return strings.TrimPrefix(f, "log_path=") + "." + strconv.Itoa(os.Getpid())
		}
	}
	return ""
}

const modPrefix = "github.com/gammazero/nexus/v3/"

// raceSide describes one of the two accesses of a report.
type raceSide struct {
	op       string // "read" / "write"
	fn       string // innermost function of this module on the stack (simrt skipped)
	harness  bool   // that function is harness code (or there is none)
	director bool   // the access was made by the scheduler's director goroutine
	stack    []string
}

func parseRaceSide(block string) raceSide {
	lines := strings.Split(block, "\n")
	rs := raceSide{harness: true, fn: "?"}
	h := strings.ToLower(lines[0])
	switch {
	case strings.Contains(h, "write"):
		rs.op = "write"
	default:
		rs.op = "read"
	}
	for _, l := range lines[1:] {
		if !strings.HasPrefix(l, "  ") || strings.HasPrefix(l, "      ") {
			continue
		}
		f := strings.TrimSpace(l)
		rs.stack = append(rs.stack, f)
		if strings.HasPrefix(f, modPrefix+"simrt.(*Sched).Run(") {
			rs.director = true
		}
		if rs.fn != "?" || !strings.HasPrefix(f, modPrefix) {
			continue
		}
		f = strings.TrimPrefix(f, modPrefix)
		if strings.HasPrefix(f, "simrt.") {
			continue
		}
		if i := strings.LastIndex(f, "("); i > 0 && strings.HasSuffix(f, "()") {
			f = f[:i]
		}
		rs.fn = f
		rs.harness = strings.HasPrefix(f, "vsim.")
	}
	return rs
}

// CollectRaces attaches the race reports written since the last call to res.
func CollectRaces(res *Result) {
	p := raceLogFile()
	if p == "" {
		return
	}
	b, err := os.ReadFile(p)
	if err != nil || int64(len(b)) <= raceLogOff {
		return
	}
	txt := string(b[raceLogOff:])
	raceLogOff = int64(len(b))
	var msgs []string
	for _, rep := range strings.Split(txt, "==================") {
		if !strings.Contains(rep, "WARNING: DATA RACE") {
			continue
		}
		blocks := strings.Split(strings.TrimSpace(rep), "\n\n")
		if len(blocks) < 2 {
			continue
		}
		b0 := blocks[0]
		if i := strings.Index(b0, "\n"); i >= 0 {
			b0 = b0[i+1:] // drop the WARNING line
		}
		a, c := parseRaceSide(b0), parseRaceSide(blocks[1])
		if a.director || c.director {
			// the director runs with synchronisation events ignored (that is
			// how the scheduler stays invisible); what it touches in the
			// standard library (timers, sync.Once inside time) is not the program's
			res.Probes["race_reports_director_artifact"]++
			continue
		}
		if a.harness && c.harness {
			res.Probes["race_reports_harness_internal"]++
			continue
		}
		sides := []string{a.op + " in " + a.fn, c.op + " in " + c.fn}
		sort.Strings(sides)
		msg := "DATA RACE: " + sides[0] + " / " + sides[1]
		res.Probes["race_reports"]++
		msgs = append(msgs, msg)
		if len(res.Panics) < 4 {
			st := rep
			if len(st) > 6000 {
				st = st[:6000]
			}
			res.Panics = append(res.Panics, strings.ReplaceAll(st, modPrefix, ""))
		}
	}
	if len(msgs) > 0 {
		sort.Strings(msgs)
		res.Violations = append(msgs, res.Violations...)
		res.Sig = Signature(res.Violations[0])
	}
}
