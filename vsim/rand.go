package vsim

// Rand is a small deterministic PRNG (splitmix64) used for scenario generation.
type Rand struct{ s uint64 }

func NewRand(seed uint64) *Rand { return &Rand{s: seed*0x9e3779b97f4a7c15 + 0x1234567} }

func Mix(a uint64, b uint64) uint64 {
	z := a + 0x9e3779b97f4a7c15*(b+1)
	z = (z ^ (z >> 30)) * 0xbf58476d1ce4e5b9
	z = (z ^ (z >> 27)) * 0x94d049bb133111eb
	return z ^ (z >> 31)
}

func (r *Rand) U64() uint64 {
	r.s += 0x9e3779b97f4a7c15
	z := r.s
	z = (z ^ (z >> 30)) * 0xbf58476d1ce4e5b9
	z = (z ^ (z >> 27)) * 0x94d049bb133111eb
	return z ^ (z >> 31)
}

// Intn returns a value in [0,n).
func (r *Rand) Intn(n int) int {
	if n <= 1 {
		return 0
	}
	return int(r.U64() % uint64(n))
}

// Range returns a value in [lo,hi].
func (r *Rand) Range(lo, hi int) int { return lo + r.Intn(hi-lo+1) }

// Chance is true with probability num/den.
func (r *Rand) Chance(num, den int) bool { return r.Intn(den) < num }

func (r *Rand) Bool() bool { return r.U64()&1 == 1 }

// Pick returns one of the strings.
func (r *Rand) Pick(xs ...string) string { return xs[r.Intn(len(xs))] }

func PickOf[T any](r *Rand, xs []T) T { return xs[r.Intn(len(xs))] }

// Weighted picks index i with probability w[i]/sum(w).
func (r *Rand) Weighted(w ...int) int {
	sum := 0
	for _, x := range w {
		sum += x
	}
	k := r.Intn(sum)
	for i, x := range w {
		if k < x {
			return i
		}
		k -= x
	}
	return len(w) - 1
}

func (r *Rand) Perm(n int) []int {
	p := make([]int, n)
	for i := range p {
		p[i] = i
	}
	for i := n - 1; i > 0; i-- {
		j := r.Intn(i + 1)
		p[i], p[j] = p[j], p[i]
	}
	return p
}

func hashStr(s string) uint64 {
	var h uint64 = 1469598103934665603
	for i := 0; i < len(s); i++ {
		h ^= uint64(s[i])
		h *= 1099511628211
	}
	return h
}
