package vsim

import (
	"fmt"
	"runtime/debug"
	"strings"
	"testing"
	"testing/cryptotest"
	"testing/synctest"
	"time"

	"github.com/gammazero/nexus/v3/simrt"
	"github.com/gammazero/nexus/v3/wamp"
)

// Spec identifies one simulated run completely.
type Spec struct {
	Prop      string `json:"prop"`
	GenSeed   uint64 `json:"gen_seed"`         // decides the generated scenario
	SchedSeed uint64 `json:"sched_seed"`       // decides every scheduling/fault choice
	Masked    bool   `json:"masked,omitempty"` // Keep is in force (minimised run)
	Keep      []int  `json:"keep,omitempty"`   // indices of generated ops kept when Masked
	Strategy  int    `json:"strategy"`         // -1 = drawn from SchedSeed
	Tier      string `json:"tier"`
	KeepLog   bool   `json:"-"`
	// Before: generation seeds of runs to execute first, in the same process (their results
	// are ignored). For violations that only show after earlier runs: code under test that
	// keeps state process-wide (a package-level cache, say) carries it from one router
	// instance to the next, and a run in a fresh process does not reproduce it.
	Before []uint64 `json:"before,omitempty"`
}

// Result is what one run reports.
type Result struct {
	Spec       Spec           `json:"spec"`
	Violations []string       `json:"violations,omitempty"`
	Sig        string         `json:"sig,omitempty"` // signature of the first violation
	Panics     []string       `json:"panics,omitempty"`
	Hash       string         `json:"hash"`
	Steps      int            `json:"steps"`
	VTimeMs    int64          `json:"vtime_ms"`
	NonTrivial bool           `json:"nontrivial"`
	Shape      string         `json:"shape"` // hash of scenario+schedule class, for distinct counting
	Probes     map[string]int `json:"probes,omitempty"`
	Faults     map[string]int `json:"faults,omitempty"`
	Sample     string         `json:"sample,omitempty"`
	NOps       int            `json:"nops"`
	Strategy   string         `json:"strategy"`
	Log        []string       `json:"log,omitempty"`
	RouterLog  []string       `json:"router_log,omitempty"`
	Tooling    string         `json:"tooling,omitempty"` // harness trouble (exit 2), not a violation
	Live       []string       `json:"live,omitempty"`
	PrevSeeds  []uint64       `json:"prev_seeds,omitempty"` // what this worker process ran before (for Spec.Before)
	post       func(*Result)  // optional check over the recorded history, run after the bubble has ended (plain goroutines, real time)
}

// Ctx is handed to a property's run function (executing as the root simulated goroutine).
type Ctx struct {
	Spec     Spec
	Gen      *Rand // generation PRNG (scenario)
	S        *simrt.Sched
	Res      *Result
	W        *World // set by the property when it builds a world
	Thorough bool

	dropsArmed *bool
	injectedCh *[]any // destination channels of the try-sends that were made to find the queue full
}

// PauseDrops suspends queue-full injection (harness bootstrap traffic is not part of the
// scenario); RestoreDrops puts back what PauseDrops returned.
func (c *Ctx) PauseDrops() bool {
	if c.dropsArmed == nil {
		return false
	}
	was := *c.dropsArmed
	*c.dropsArmed = false
	return was
}

func (c *Ctx) RestoreDrops(was bool) {
	if c.dropsArmed != nil {
		*c.dropsArmed = was
	}
}

// InjectedTo reports how many sends to s were made to find its queue full by
// the queue-full injection (not all of them end as a drop the router logs: a
// RESULT is retried).
func (c *Ctx) InjectedTo(s *Sess) int {
	if c.injectedCh == nil || s.Rtr == nil {
		return 0
	}
	n := 0
	want := any(s.Rtr.Send())
	for _, ch := range *c.injectedCh {
		if ch == want {
			n++
		}
	}
	return n
}

// LossyTo: the router dropped something to s, or was made to find its queue full.
func LossyTo(c *Ctx, w *World, s *Sess) bool {
	return DroppedTo(w, s.ID) > 0 || c.InjectedTo(s) > 0
}

// DisarmDrops ends queue-full injection for the rest of the run ("faults stop").
func (c *Ctx) DisarmDrops() {
	if c.dropsArmed != nil {
		*c.dropsArmed = false
	}
}

func (c *Ctx) Violf(format string, a ...any) {
	c.Res.Violations = append(c.Res.Violations, fmt.Sprintf(format, a...))
}

func (c *Ctx) Probe(name string) {
	c.Res.Probes[name]++
}

func (c *Ctx) Fault(name string) {
	c.Res.Faults[name]++
}

// Kept reports whether generated op i survives the minimisation mask.
func (c *Ctx) Kept(i int) bool {
	if !c.Spec.Masked {
		return true
	}
	for _, k := range c.Spec.Keep {
		if k == i {
			return true
		}
	}
	return false
}

// PropFunc runs one scenario of a property.
type PropFunc func(c *Ctx)

// PropDef registers a property check.
type PropDef struct {
	ID       string
	Run      PropFunc
	Config   func(spec Spec, g *Rand) simrt.Config // optional: tune scheduler config
	MaxSteps int
	// Drops: in a quarter of the runs the broker's and dealer's non-blocking
	// sends to clients (EVENT, INVOCATION, INTERRUPT, RESULT, ERROR) are made
	// to find the queue full now and then - what a burst does to a client
	// that is a little behind. Only for checks whose oracles account for
	// messages the router reports as dropped.
	Drops bool
}

var Props = map[string]*PropDef{}

func Register(p *PropDef) { Props[p.ID] = p }

// RunOne executes one simulated run in its own bubble.
func RunOne(t *testing.T, spec Spec) (res *Result) {
	for _, b := range spec.Before {
		RunOne(t, Spec{Prop: spec.Prop, GenSeed: b, SchedSeed: Mix(b, 7), Strategy: -1, Tier: spec.Tier})
	}
	res = &Result{Spec: spec, Probes: map[string]int{}, Faults: map[string]int{}}
	p := Props[spec.Prop]
	raceOnly := false
	if spec.Prop == "C04R" {
		// race-detector build: a mix of scenario families; only crashes and
		// the detector's reports count here, the families' own oracles are
		// decided by their own checks
		p = Props[raceMix[int(spec.GenSeed>>8)%len(raceMix)]]
		raceOnly = true
	}
	if p == nil {
		res.Tooling = "unknown property " + spec.Prop
		return
	}
	t.Run(fmt.Sprintf("%s-%d-%d", spec.Prop, spec.GenSeed, spec.SchedSeed), func(t *testing.T) {
		cryptotest.SetGlobalRandom(t, spec.GenSeed^0x5eed)
		defer func() {
			if r := recover(); r != nil {
				msg := fmt.Sprint(r)
				if strings.Contains(msg, "deadlock: main bubble goroutine has exited") {
					// goroutines left blocked in real operations when the run
					// ended; the property's own checks have already looked at
					// the goroutine registry.
					res.Probes["bubble_left_blocked"]++
					return
				}
				res.Tooling = "panic outside simulated goroutines: " + msg + "\n" + string(debug.Stack())
			}
		}()
		synctest.Test(t, func(t *testing.T) {
			simrt.ReinitGlobals()
			sg := NewRand(spec.SchedSeed)
			cfg := simrt.Config{Seed: spec.SchedSeed, MaxSteps: 60000, KeepLog: spec.KeepLog}
			if spec.Strategy >= 0 {
				cfg.Strategy = simrt.Strategy(spec.Strategy)
			} else {
				cfg.Strategy = simrt.Strategy(sg.Intn(4))
			}
			cfg.ShuffleMaps = sg.Intn(4) != 0
			if sg.Intn(5) == 0 {
				cfg.DelayPermille = 5 + sg.Intn(40)
			}
			if sg.Intn(5) < 2 {
				cfg.FocusMod = 60 + sg.Intn(240)
				cfg.FocusBudget = 1 + sg.Intn(3)
			}
			if p.MaxSteps > 0 {
				cfg.MaxSteps = p.MaxSteps
			}
			g := NewRand(spec.GenSeed)
			if p.Config != nil {
				cfg = p.Config(spec, g)
				cfg.Seed = spec.SchedSeed
				cfg.KeepLog = spec.KeepLog
			}
			dropsArmed := true
			var injectedCh []any
			if p.Drops && !simrt.RaceEnabled {
				dg := NewRand(Mix(spec.SchedSeed, 0xd509))
				if dg.Intn(4) == 0 {
					per := []int{12, 40, 150}[dg.Intn(3)]
					cfg.DropHook = func(site string, ch any, v any) bool {
						if !dropsArmed {
							return false
						}
						if !strings.HasPrefix(site, "broker.go:") && !strings.HasPrefix(site, "dealer.go:") {
							return false
						}
						// not the acknowledgements: the realm's own meta session waits
						// for its REGISTERED at start-up, when no queue can be full
						switch v.(type) {
						case *wamp.Event, *wamp.Invocation, *wamp.Interrupt, *wamp.Result, *wamp.Error:
						default:
							return false
						}
						if dg.Intn(per) != 0 {
							return false
						}
						injectedCh = append(injectedCh, ch)
						return true
					}
				}
			}
			s := simrt.New(cfg)
			c := &Ctx{Spec: spec, Gen: g, S: s, Res: res, Thorough: spec.Tier == "thorough", dropsArmed: &dropsArmed, injectedCh: &injectedCh}
			res.Strategy = cfg.Strategy.String()
			s.Run(func() { p.Run(c) })
			res.Steps = s.StepCount()
			res.VTimeMs = int64(s.Elapsed() / time.Millisecond)
			res.Hash = fmt.Sprintf("%016x", s.Hash())
			for _, pi := range s.Panics() {
				res.Panics = append(res.Panics, pi.G+": "+pi.Value+"\n"+trimStack(pi.Stack))
				res.Violations = append(res.Violations, "panic: "+pi.Value+" in "+innermostNexus(pi.Stack))
			}
			if c.W != nil {
				res.Violations = append(res.Violations, c.W.Viol...)
				for k, v := range c.W.Probes {
					res.Probes[k] += v
				}
				res.RouterLog = c.W.Log.Tail(60)
			}
			if !s.RootDone && len(res.Violations) == 0 && !s.StepLimit {
				res.Violations = append(res.Violations, "scenario never finished: blocked forever at "+s.RootSite+" (nothing left to run before the horizon)")
			}
			if s.StepLimit {
				res.Probes["step_limit"]++
			}
			res.Faults["delay_hold"] += s.Holds
			res.Faults["site_focused_hold"] += s.FocusHolds
			res.Faults["queue_full_injected"] += s.Drops
			res.Probes["time_advances"] += s.TimeAdvances
			res.Probes["steps_multi_enabled"] += s.MultiEnabled
			res.Probes["map_ranges_ordered"] += s.MapRanges
			for k, v := range s.Counters() {
				res.Probes[k] += v
			}
			if spec.KeepLog {
				res.Log = s.LogLines()
			}
			if len(res.Violations) > 0 {
				res.Live = s.LiveAtEnd
			}
		})
	})
	if res.post != nil {
		post := res.post
		res.post = nil
		if !raceOnly { // the race-detector build only looks for crashes and the detector's reports
			post(res)
		}
	}
	if raceOnly {
		var keep []string
		for _, v := range res.Violations {
			if strings.HasPrefix(v, "panic:") {
				keep = append(keep, v)
			}
		}
		res.Violations = keep
		if !strings.Contains(res.Tooling, "panic outside") {
			res.Tooling = ""
		}
	}
	if len(res.Violations) > 0 {
		res.Sig = Signature(res.Violations[0])
	}
	CollectRaces(res)
	return
}

// Signature reduces a violation message to a stable class: digits and quoted
// payload stripped.
func Signature(v string) string {
	var b strings.Builder
	inDigits := false
	for _, r := range v {
		if r >= '0' && r <= '9' {
			if !inDigits {
				b.WriteByte('#')
			}
			inDigits = true
			continue
		}
		inDigits = false
		b.WriteRune(r)
	}
	s := b.String()
	if len(s) > 200 {
		s = s[:200]
	}
	return s
}

func trimStack(st string) string {
	lines := strings.Split(st, "\n")
	var out []string
	for _, l := range lines {
		if strings.Contains(l, "simrt.") || strings.Contains(l, "/simrt/") || strings.Contains(l, "runtime/debug") || strings.Contains(l, "runtime/panic") {
			continue
		}
		out = append(out, l)
		if len(out) > 24 {
			break
		}
	}
	return strings.Join(out, "\n")
}

// innermostNexus returns the innermost function of the code under test on a panic stack.
func innermostNexus(st string) string {
	for _, l := range strings.Split(st, "\n") {
		l = strings.TrimSpace(l)
		if strings.HasPrefix(l, "github.com/gammazero/nexus/v3/") && !strings.Contains(l, "/simrt.") && !strings.Contains(l, "/vsim.") {
			if i := strings.LastIndex(l, "("); i > 0 {
				l = l[:i]
			}
			return strings.TrimPrefix(l, "github.com/gammazero/nexus/v3/")
		}
	}
	return "?"
}
