package vsim

import (
	"errors"
	"fmt"
	"sort"
	"strings"

	"github.com/gammazero/nexus/v3/router"
	"github.com/gammazero/nexus/v3/simrt"
	"github.com/gammazero/nexus/v3/wamp"
)

// Sequential model-checking executor: one client stimulus at a time, run the
// router to quiescence, compare what every session received with the
// reference model's prediction (multiset per session).

// StaticAuth is a harness authenticator ("vstatic") assigning identities from a table.
type StaticAuth struct{ Roles map[string]string }

func (a *StaticAuth) AuthMethod() string { return "vstatic" }
func (a *StaticAuth) Authenticate(sid wamp.ID, details wamp.Dict, client wamp.Peer) (*wamp.Welcome, error) {
	authid, _ := wamp.AsString(details["authid"])
	role, ok := a.Roles[authid]
	if !ok {
		return nil, errors.New("unknown user")
	}
	return &wamp.Welcome{Details: wamp.Dict{"authid": authid, "authrole": role, "authprovider": "vsim"}}, nil
}

type invKey struct {
	callee int
	req    wamp.ID
}

// Binder learns the bijection between router-assigned ids and model symbols.
type Binder struct {
	sub, reg, pub  map[wamp.ID]int
	subRev, regRev map[int]wamp.ID
	pubRev         map[int]wamp.ID
	inv            map[invKey]int
	invRev         map[int]invKey
	internalReg    map[wamp.ID]bool // registrations of the realm's own meta procedures
	minClientReg   wamp.ID          // smallest registration id handed to a client
	pubTopic       map[int]string   // publication symbol -> topic
}

func NewBinder() *Binder {
	return &Binder{sub: map[wamp.ID]int{}, reg: map[wamp.ID]int{}, pub: map[wamp.ID]int{}, subRev: map[int]wamp.ID{}, regRev: map[int]wamp.ID{}, pubRev: map[int]wamp.ID{}, inv: map[invKey]int{}, invRev: map[int]invKey{}, internalReg: map[wamp.ID]bool{}, pubTopic: map[int]string{}}
}

// SeqRealm couples a model realm with its binder and sessions.
type SeqRealm struct {
	M *MRealm
	B *Binder
}

// Seq is the executor state.
type Seq struct {
	C              *Ctx
	W              *World
	Realms         map[string]*SeqRealm
	Slots          []*Sess // slot -> current session (nil if none)
	MS             []*MSess
	Step           int
	maskIDs        []string              // ids of sessions ending concurrently: which of them an announcement names is not determined
	dropSeen       map[int]int           // session -> drops already accounted for
	optionalTo     map[int]int           // session -> how many expected messages may be missing in this step (the router reported that it could not queue them)
	lenientTo      map[int]bool          // sessions ending concurrently in this step: what else reaches them is not determined
	metaRender     map[invKey]MetaRender // (caller idx, request) -> renderer of the meta RESULT
	MetaKill       bool
	NetFaults      NetFaults
	historyLearnt  map[string]bool
	IgnoreMetaOnce bool
	MkRealm        func(uri string) (*router.RealmConfig, *MRealm) // for addrealm steps
	Authz          *TableAuthz                                     // the realm's Authorizer (nil: none)
	LocalAuthz     bool                                            // RequireLocalAuthz
	callReqs       map[int][]wamp.ID                               // session idx -> request ids of the CALLs it has sent
	curIdx         []int                                           // slot -> index into Slots of the session currently there (-1 none)
	deadSess       []*Sess                                         // ended sessions: must not receive anything further
	// options
	IgnoreMeta         bool // do not compare meta events (properties that do not subscribe to wamp.*)
	CheckSenderPayload bool // C12: a recipient's modifications must not reach the sender's objects
}

func NewSeq(c *Ctx, w *World) *Seq {
	return &Seq{C: c, W: w, Realms: map[string]*SeqRealm{}, metaRender: map[invKey]MetaRender{}, historyLearnt: map[string]bool{}}
}

func (q *Seq) AddRealm(m *MRealm) *SeqRealm {
	r := &SeqRealm{M: m, B: NewBinder()}
	q.Realms[m.URI] = r
	delete(q.historyLearnt, m.URI)
	return r
}

func featSet(roles wamp.Dict) map[string]bool {
	out := map[string]bool{}
	for role, v := range roles {
		rd, _ := wamp.AsDict(v)
		fd, _ := wamp.AsDict(rd["features"])
		for f, b := range fd {
			if t, _ := b.(bool); t {
				out[role+"."+f] = true
			}
		}
	}
	return out
}

// rendering of one actual message: the set of canonical texts it satisfies.
func (q *Seq) render(r *SeqRealm, sidx int, m wamp.Message) []string {
	b := r.B
	subSym := func(id wamp.ID) string {
		if s, ok := b.sub[id]; ok {
			return symS(s)
		}
		return fmt.Sprintf("S?%d", id)
	}
	regSym := func(id wamp.ID) string {
		if s, ok := b.reg[id]; ok {
			return symR(s)
		}
		return fmt.Sprintf("R?%d", id)
	}
	switch x := m.(type) {
	case *wamp.Subscribed:
		return []string{fmt.Sprintf("SUBSCRIBED(%d,%s)", x.Request, subSym(x.Subscription))}
	case *wamp.Unsubscribed:
		return []string{fmt.Sprintf("UNSUBSCRIBED(%d)", x.Request)}
	case *wamp.Registered:
		return []string{fmt.Sprintf("REGISTERED(%d,%s)", x.Request, regSym(x.Registration))}
	case *wamp.Unregistered:
		return []string{fmt.Sprintf("UNREGISTERED(%d)", x.Request)}
	case *wamp.Published:
		p := fmt.Sprintf("P?%d", x.Publication)
		if s, ok := b.pub[x.Publication]; ok {
			p = symP(s)
		}
		return []string{fmt.Sprintf("PUBLISHED(%d,%s)", x.Request, p)}
	case *wamp.Error:
		return []string{
			errText(x.Type, x.Request, string(x.Error)),
			fmt.Sprintf("ERRORP(%d,%d,%s,%s)", int(x.Type), x.Request, x.Error, payload(x.Arguments, x.ArgumentsKw)),
			fmt.Sprintf("ERROR(%d,%d,*)", int(x.Type), x.Request),
		}
	case *wamp.Event:
		var kv []string
		metaTopic := ""
		if sub := r.M.subBySymAny(b.sub[x.Subscription]); sub != nil {
			metaTopic = sub.Topic
		}
		evKeys := []string{"topic", "publisher", "publisher_authid", "publisher_authrole"}
		if r.M.Lenient {
			// only what C01 states: the topic for pattern subscriptions
			evKeys = nil
			if sub := r.M.subBySymAny(b.sub[x.Subscription]); sub != nil && sub.Match != "exact" {
				evKeys = []string{"topic"}
			}
			if t, ok := wamp.AsString(x.Details["topic"]); ok {
				metaTopic = t
			}
		}
		for _, k := range evKeys {
			if v, ok := x.Details[k]; ok {
				switch vv := v.(type) {
				case string:
					kv = append(kv, k, fmt.Sprintf("%q", vv))
				case wamp.URI:
					kv = append(kv, k, fmt.Sprintf("%q", string(vv)))
				default:
					kv = append(kv, k, fmt.Sprint(NormNums(v)))
				}
				if k == "topic" {
					if s, ok := wamp.AsString(v); ok {
						metaTopic = s
					}
				}
			}
		}
		det := detText(kv...)
		if strings.HasPrefix(metaTopic, "wamp.") {
			return []string{fmt.Sprintf("EVENT(%s,*,%s,%s)", subSym(x.Subscription), det, q.metaArgs(r, metaTopic, x.Arguments))}
		}
		p := "*"
		if s, ok := b.pub[x.Publication]; ok {
			p = symP(s)
		} else {
			p = fmt.Sprintf("P?%d", x.Publication)
		}
		return []string{fmt.Sprintf("EVENT(%s,%s,%s,%s)", subSym(x.Subscription), p, det, payload(x.Arguments, x.ArgumentsKw))}
	case *wamp.Invocation:
		var kv []string
		invKeys := []string{"caller", "caller_authid", "caller_authrole", "procedure", "timeout"}
		if r.M.Lenient {
			invKeys = []string{"procedure", "timeout"}
		}
		// the actual procedure is required for pattern registrations only;
		// for an exact one it is allowed but says nothing
		if reg := r.M.regBySymAny(b.reg[x.Registration]); reg == nil || reg.Match == "exact" {
			var nk []string
			for _, k := range invKeys {
				if k != "procedure" {
					nk = append(nk, k)
				}
			}
			invKeys = nk
		}
		for _, k := range invKeys {
			if v, ok := x.Details[k]; ok {
				switch vv := v.(type) {
				case string:
					kv = append(kv, k, fmt.Sprintf("%q", vv))
				case wamp.URI:
					kv = append(kv, k, fmt.Sprintf("%q", string(vv)))
				default:
					kv = append(kv, k, fmt.Sprint(NormNums(v)))
				}
			}
		}
		if rp, _ := x.Details["receive_progress"].(bool); rp {
			kv = append(kv, "receive_progress", "true")
		}
		if pg, _ := x.Details["progress"].(bool); pg {
			kv = append(kv, "progress", "true")
		}
		i := fmt.Sprintf("I?%d", x.Request)
		if s, ok := b.inv[invKey{sidx, x.Request}]; ok {
			i = symI(s)
		}
		return []string{fmt.Sprintf("INVOCATION(%s,%s,%s,%s)", i, regSym(x.Registration), detText(kv...), payload(x.Arguments, x.ArgumentsKw))}
	case *wamp.Interrupt:
		i := fmt.Sprintf("I?%d", x.Request)
		if s, ok := b.inv[invKey{sidx, x.Request}]; ok {
			i = symI(s)
		}
		mode, _ := wamp.AsString(x.Options["mode"])
		return []string{fmt.Sprintf("INTERRUPT(%s,%s)", i, mode), "INTERRUPT(?)"}
	case *wamp.Result:
		det := "{}"
		if p, _ := x.Details["progress"].(bool); p {
			det = detText("progress", "true")
		}
		out := []string{fmt.Sprintf("RESULT(%d,%s,%s)", x.Request, det, payload(x.Arguments, x.ArgumentsKw)), fmt.Sprintf("RESULT(%d,?)", x.Request)}
		if f := q.metaRender[invKey{sidx, x.Request}]; f != nil {
			out = append(out, f(b, x))
		}
		return out
	case *wamp.Goodbye:
		// details: a message, and for the victims of kill_all the router's own marker; anything
		// else (such as that marker on another kill's GOODBYE, left over from somewhere) shows
		var extra []string
		for k := range x.Details {
			if k != "message" {
				extra = append(extra, k)
			}
		}
		sort.Strings(extra)
		suffix := ""
		if len(extra) > 0 {
			suffix = "+" + strings.Join(extra, "+")
		}
		return []string{fmt.Sprintf("GOODBYE(%s)%s", x.Reason, suffix), "GOODBYE(*)" + suffix}
	case *wamp.Abort:
		return []string{fmt.Sprintf("ABORT(%s)", x.Reason)}
	}
	return []string{Brief(m)}
}

func (m *MRealm) regBySymAny(sym int) *MReg {
	for _, r := range m.Regs {
		if r.Sym == sym {
			return r
		}
	}
	return nil
}

func (m *MRealm) subBySymAny(sym int) *MSub {
	for _, s := range m.Subs {
		if s.Sym == sym {
			return s
		}
	}
	return nil
}

// metaArgs renders the arguments of a meta event according to its topic.
func (q *Seq) metaArgs(r *SeqRealm, topic string, args wamp.List) string {
	b := r.B
	id := func(i int) wamp.ID {
		if len(args) > i {
			v, _ := wamp.AsID(args[i])
			return v
		}
		return 0
	}
	s := func(class string, v wamp.ID) string {
		switch class {
		case "S":
			if x, ok := b.sub[v]; ok {
				return symS(x)
			}
			return fmt.Sprintf("S?%d", v)
		default:
			if x, ok := b.reg[v]; ok {
				return symR(x)
			}
			return fmt.Sprintf("R?%d", v)
		}
	}
	str := func(v any) string { x, _ := wamp.AsString(v); return x }
	switch topic {
	case "wamp.session.on_join":
		if len(args) > 0 {
			d, _ := wamp.AsDict(args[0])
			sid, _ := wamp.AsID(d["session"])
			if tr, ok := wamp.AsDict(d["transport"]); ok {
				if _, leak := tr["auth"]; leak {
					q.C.Violf("wamp.session.on_join exposes transport.auth")
				}
			}
			return fmt.Sprintf("[join:%d:%s:%s]", sid, str(d["authid"]), str(d["authrole"]))
		}
	case "wamp.session.on_leave":
		if len(args) >= 3 {
			return fmt.Sprintf("[%d,%q,%q]", id(0), str(args[1]), str(args[2]))
		}
	case "wamp.subscription.on_create":
		if len(args) >= 2 {
			d, _ := wamp.AsDict(args[1])
			sid, _ := wamp.AsID(d["id"])
			mt := str(d["match"])
			if mt != "prefix" && mt != "wildcard" {
				mt = "exact"
			}
			return fmt.Sprintf("[%d,subinfo:%s:%q:%s]", id(0), s("S", sid), str(d["uri"]), mt)
		}
	case "wamp.subscription.on_subscribe", "wamp.subscription.on_unsubscribe", "wamp.subscription.on_delete":
		return fmt.Sprintf("[%d,%s]", id(0), s("S", id(1)))
	case "wamp.registration.on_create":
		if len(args) >= 2 {
			d, _ := wamp.AsDict(args[1])
			rid, _ := wamp.AsID(d["id"])
			mt := str(d["match"])
			if mt != "prefix" && mt != "wildcard" {
				mt = "exact"
			}
			return fmt.Sprintf("[%d,reginfo:%s:%q:%s:%q]", id(0), s("R", rid), str(d["uri"]), mt, str(d["invoke"]))
		}
	case "wamp.registration.on_register", "wamp.registration.on_unregister", "wamp.registration.on_delete":
		return fmt.Sprintf("[%d,%s]", id(0), s("R", id(1)))
	}
	return CanonVal(NormNums(args))
}

func symOf(text, prefix string) (int, bool) {
	i := strings.Index(text, prefix)
	if i < 0 {
		return 0, false
	}
	var n int
	if _, err := fmt.Sscanf(text[i+len(prefix):], "%d", &n); err != nil {
		return 0, false
	}
	return n, true
}

// Compare checks the actual messages of every session against exp.
func (q *Seq) Compare(r *SeqRealm, what string, exp []Exp, pending *MCall) {
	// messages the router reported it could not queue for a session (queue
	// full) since the last comparison may be missing from what that session got
	if q.optionalTo == nil {
		q.optionalTo = map[int]int{}
		defer func() { q.optionalTo = nil }()
	}
	if q.dropSeen == nil {
		q.dropSeen = map[int]int{}
	}
	for i, s := range q.Slots {
		if s != nil {
			if d := DroppedTo(q.W, s.ID); d > q.dropSeen[i] {
				q.optionalTo[i] += d - q.dropSeen[i]
				q.dropSeen[i] = d
			}
		}
	}
	b := r.B
	type act struct {
		sidx int
		msg  wamp.Message
		used bool
	}
	var acts []*act
	for i, s := range q.Slots {
		if s == nil || string(s.Realm) != r.M.URI {
			continue
		}
		for _, rc := range s.Take() {
			acts = append(acts, &act{sidx: i, msg: rc.Msg})
		}
	}
	for _, s := range q.deadSess {
		if string(s.Realm) != r.M.URI {
			continue
		}
		for _, rc := range s.Take() {
			switch rc.Msg.(type) {
			case *wamp.Goodbye, *wamp.Abort:
			default:
				q.C.Violf("step %d (%s): session %s received %s after it had ended", q.Step, what, s.Name, Brief(rc.Msg))
			}
		}
	}
	expAt := func(sidx int, prefix string) []*Exp {
		var out []*Exp
		for i := range exp {
			if exp[i].To == sidx && strings.HasPrefix(exp[i].Text, prefix) {
				out = append(out, &exp[i])
			}
		}
		return out
	}
	bind := func(kind string, fwd map[wamp.ID]int, rev map[int]wamp.ID, actual wamp.ID, sym int) {
		if old, ok := fwd[actual]; ok && old != sym {
			q.C.Violf("step %d (%s): router reuses %s id %d for a different object (%s#%d vs %s#%d)", q.Step, what, kind, actual, kind, old, kind, sym)
			return
		}
		if old, ok := rev[sym]; ok && old != actual {
			q.C.Violf("step %d (%s): %s id not stable: %d, earlier %d", q.Step, what, kind, actual, old)
			return
		}
		fwd[actual] = sym
		rev[sym] = actual
	}
	// pass 1: learn ids from acknowledgements and invocations
	for _, a := range acts {
		switch x := a.msg.(type) {
		case *wamp.Subscribed:
			for _, e := range expAt(a.sidx, fmt.Sprintf("SUBSCRIBED(%d,", x.Request)) {
				if n, ok := symOf(e.Text, "S#"); ok {
					bind("subscription", b.sub, b.subRev, x.Subscription, n)
				}
			}
		case *wamp.Registered:
			for _, e := range expAt(a.sidx, fmt.Sprintf("REGISTERED(%d,", x.Request)) {
				if n, ok := symOf(e.Text, "R#"); ok {
					bind("registration", b.reg, b.regRev, x.Registration, n)
					if b.minClientReg == 0 || x.Registration < b.minClientReg {
						b.minClientReg = x.Registration
					}
				}
			}
		case *wamp.Published:
			for _, e := range expAt(a.sidx, fmt.Sprintf("PUBLISHED(%d,", x.Request)) {
				if n, ok := symOf(e.Text, "P#"); ok {
					bind("publication", b.pub, b.pubRev, x.Publication, n)
				}
			}
		case *wamp.Invocation:
			if _, known := b.inv[invKey{a.sidx, x.Request}]; known {
				break
			}
			for _, e := range expAt(a.sidx, "INVOCATION(I#") {
				n, _ := symOf(e.Text, "I#")
				if _, taken := b.invRev[n]; taken {
					continue
				}
				ms := r.M.Sess[a.sidx]
				if ms != nil {
					if ms.InvSeen[x.Request] {
						q.C.Violf("step %d (%s): INVOCATION request id %d was already used towards callee s%d", q.Step, what, x.Request, a.sidx)
					}
					ms.InvSeen[x.Request] = true
				}
				b.inv[invKey{a.sidx, x.Request}] = n
				b.invRev[n] = invKey{a.sidx, x.Request}
				break
			}
		}
	}
	// pass 1b: publication ids of unacknowledged publications, learnt from the events
	for _, a := range acts {
		ev, ok := a.msg.(*wamp.Event)
		if !ok {
			continue
		}
		if _, known := b.pub[ev.Publication]; known {
			continue
		}
		subS, ok := b.sub[ev.Subscription]
		if !ok {
			continue
		}
		for _, e := range expAt(a.sidx, fmt.Sprintf("EVENT(%s,P#", symS(subS))) {
			n, _ := symOf(e.Text, "P#")
			if _, taken := b.pubRev[n]; taken {
				continue
			}
			if tp, ok := wamp.AsString(ev.Details["topic"]); ok && strings.Contains(e.Text, "topic:") && !strings.Contains(e.Text, fmt.Sprintf("topic:%q", tp)) {
				continue // same payload published to another topic (two testaments of one session, say)
			}
			if strings.HasSuffix(e.Text, payload(ev.Arguments, ev.ArgumentsKw)+")") {
				b.pub[ev.Publication] = n
				b.pubRev[n] = ev.Publication
				break
			}
		}
	}
	// pass 2: match
	usedExp := make([]bool, len(exp))
	matchOne := func(i int) bool {
		e := exp[i]
		texts := []string{e.Text}
		if len(e.Alt) > 0 && e.Alt[0] != "?choice" {
			texts = e.Alt
		}
		for _, a := range acts {
			if a.used || a.sidx != e.To {
				continue
			}
			rs := q.render(r, a.sidx, a.msg)
			for _, t := range texts {
				if t == "" {
					continue
				}
				if contains(rs, t) {
					a.used = true
					return true
				}
				if len(q.maskIDs) > 0 && strings.Contains(t, "on_delete") {
					mt := t
					for _, id := range q.maskIDs {
						mt = strings.ReplaceAll(mt, id, "K")
					}
					for _, x := range rs {
						for _, id := range q.maskIDs {
							x = strings.ReplaceAll(x, id, "K")
						}
						if x == mt {
							a.used = true
							return true
						}
					}
				}
			}
		}
		for _, t := range texts {
			if t == "" {
				return true // "nothing" is an accepted alternative
			}
		}
		return false
	}
	// ambiguous-callee groups first
	if pending != nil && pending.Callee < 0 {
		got, gotReg := -1, 0
		n := 0
		for i := range exp {
			if len(exp[i].Alt) > 0 && exp[i].Alt[0] == "?choice" {
				if matchOne(i) {
					n++
					got = exp[i].To
					gotReg, _ = symOf(exp[i].Text, "R#")
					if strings.HasPrefix(exp[i].Text, "ERROR(") {
						gotReg = -1 // the refusal was the outcome
					}
				}
				usedExp[i] = true
			}
		}
		if n != 1 {
			q.C.Violf("step %d (%s): expected exactly one INVOCATION among the candidate callees %v, got %d", q.Step, what, pending.Cands, n)
		} else {
			r.M.CallResolve(pending, got, gotReg)
		}
	}
	for i := range exp {
		if usedExp[i] {
			continue
		}
		if q.IgnoreMeta && strings.Contains(exp[i].Text, ",*,") && strings.HasPrefix(exp[i].Text, "EVENT(") {
			continue
		}
		if !matchOne(i) {
			if q.lenientTo[exp[i].To] && !strings.HasPrefix(exp[i].Text, "GOODBYE(") {
				continue
			}
			if q.optionalTo[exp[i].To] > 0 {
				q.optionalTo[exp[i].To]--
				continue
			}
			want := exp[i].Text
			if len(exp[i].Alt) > 0 {
				want = strings.Join(exp[i].Alt, " | ")
			}
			q.C.Violf("step %d (%s): s%d did not receive %s", q.Step, what, exp[i].To, want)
		}
	}
	for _, a := range acts {
		if !a.used && q.lenientTo[a.sidx] {
			continue
		}
		if !a.used && (q.IgnoreMeta || q.IgnoreMetaOnce) {
			if ev, ok := a.msg.(*wamp.Event); ok {
				if rs := q.render(r, a.sidx, ev); strings.Contains(rs[0], ",*,") {
					continue
				}
			}
		}
		if !a.used {
			q.C.Violf("step %d (%s): s%d received unexpected %s  [as %s]", q.Step, what, a.sidx, Brief(a.msg), q.render(r, a.sidx, a.msg)[0])
		}
	}
}

// deadSess: sessions that ended; they must not receive anything further.
func (q *Seq) retire(s *Sess) { q.deadSess = append(q.deadSess, s) }

// Settle waits for quiescence at the current instant.
func (q *Seq) Settle() { simrt.WaitQuiescent("seq") }

// LearnInternalRegs asks the realm (through the session in slot) for the
// registrations that exist before any client registered anything: the
// realm's own wamp.* procedures.
func (q *Seq) LearnInternalRegs(slot int) {
	s, _ := q.cur(slot)
	if s == nil {
		return
	}
	r := q.Realms[string(s.Realm)]
	req := s.NextReq()
	s.Send(&wamp.Call{Request: req, Options: wamp.Dict{}, Procedure: "wamp.registration.list"})
	q.Settle()
	for _, rc := range s.Take() {
		if res, ok := rc.Msg.(*wamp.Result); ok && res.Request == req && len(res.Arguments) > 0 {
			d, _ := wamp.AsDict(res.Arguments[0])
			for _, k := range []string{"exact", "prefix", "wildcard"} {
				l, _ := wamp.AsList(d[k])
				for _, e := range l {
					if id, ok := wamp.AsID(e); ok {
						r.B.internalReg[id] = true
					}
				}
			}
		}
	}
}

// ---- harness Authorizer ----------------------------------------------------

const (
	authzAllow = iota
	authzDeny
	authzFail
	authzRewrite
)

// TableAuthz decides allow / deny / fail / rewrite as a pure function of
// (seed, authid, message type, URI); the model evaluates the same function.
type TableAuthz struct {
	Seed     uint64
	DenyPerm int // per mille
	FailPerm int
	RewrPerm int
	Called   int
}

func msgURI(m wamp.Message) string {
	switch x := m.(type) {
	case *wamp.Publish:
		return string(x.Topic)
	case *wamp.Subscribe:
		return string(x.Topic)
	case *wamp.Register:
		return string(x.Procedure)
	case *wamp.Call:
		return string(x.Procedure)
	}
	return ""
}

func (a *TableAuthz) Decide(authid string, m wamp.Message) int {
	switch m.(type) {
	case *wamp.Goodbye, *wamp.Error:
		return authzAllow
	}
	h := Mix(Mix(Mix(a.Seed, hashStr(authid)), uint64(m.MessageType())), hashStr(msgURI(m))) % 1000
	switch {
	case int(h) < a.DenyPerm:
		return authzDeny
	case int(h) < a.DenyPerm+a.FailPerm:
		return authzFail
	case int(h) < a.DenyPerm+a.FailPerm+a.RewrPerm:
		if u := msgURI(m); u != "" && !strings.HasSuffix(u, ".") && !strings.HasPrefix(u, "wamp.") {
			return authzRewrite
		}
	}
	return authzAllow
}

func (a *TableAuthz) Authorize(sess *wamp.Session, m wamp.Message) (bool, error) {
	a.Called++
	authid, _ := wamp.AsString(sess.Details["authid"])
	switch a.Decide(authid, m) {
	case authzDeny:
		return false, nil
	case authzFail:
		return false, errors.New("authorizer backend down")
	case authzRewrite:
		switch x := m.(type) {
		case *wamp.Publish:
			x.Topic += ".rw"
			x.Options = wamp.SetOption(x.Options, "exclude_me", false)
		case *wamp.Subscribe:
			x.Topic += ".rw"
		case *wamp.Register:
			x.Procedure += ".rw"
		case *wamp.Call:
			x.Procedure += ".rw"
		}
	}
	return true, nil
}

// LearnHistorySubs binds the ids of the subscriptions that exist from the
// start (event-history configuration) by asking the realm for them.
func (q *Seq) LearnHistorySubs(slot int) {
	s, _ := q.cur(slot)
	if s == nil {
		return
	}
	r := q.Realms[string(s.Realm)]
	for _, sub := range r.M.Subs {
		if sub.Hist == nil || sub.Deleted {
			continue
		}
		if _, bound := r.B.subRev[sub.Sym]; bound {
			continue
		}
		req := s.NextReq()
		s.Send(&wamp.Call{Request: req, Options: wamp.Dict{}, Procedure: "wamp.subscription.lookup", Arguments: wamp.List{sub.Topic, wamp.Dict{"match": sub.Match}}})
		q.Settle()
		for _, rc := range s.Take() {
			if res, ok := rc.Msg.(*wamp.Result); ok && res.Request == req && len(res.Arguments) > 0 {
				if id, ok := wamp.AsID(res.Arguments[0]); ok && id != 0 {
					r.B.sub[id] = sub.Sym
					r.B.subRev[sub.Sym] = id
				}
			}
		}
	}
}
