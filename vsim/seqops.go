package vsim

import (
	"fmt"
	"sort"
	"strings"
	"time"

	"github.com/gammazero/nexus/v3/transport/serialize"
	"github.com/gammazero/nexus/v3/wamp"
)

// SOp is one step of a sequential scenario. Targets (which subscription,
// which invocation...) are resolved against the model when the step runs, so
// that a minimised script (steps dropped) stays meaningful.
type SOp struct {
	QSize     int // outbound queue size of the session (0: 64)
	Kind      string
	Slot      int
	Realm     string
	URI       string
	Opts      wamp.Dict
	Args      wamp.List
	Kw        wamp.Dict
	K         int // selector
	Var       int // variant: 0 own, 1 another session's, 2 unknown
	Local     bool
	Authid    string
	Role      string
	Xattr     string
	Roles     wamp.Dict
	How       int // leave: 0 GOODBYE, 1 lost transport, 2 protocol violation
	Prog      bool
	Scribble  bool
	Transport wamp.Dict
	Net       string // "", "raw" or "ws": attach over a simulated network transport
	Ser       int    // serializer for network transports (0 json, 1 msgpack, 2 cbor)
}

func (o SOp) String() string {
	s := fmt.Sprintf("s%d:%s", o.Slot, o.Kind)
	if o.Realm != "" && o.Kind == "join" {
		s += "@" + o.Realm
	}
	switch o.Kind {
	case "join":
		s += fmt.Sprintf("(local=%v,authid=%s,role=%s,x=%s)", o.Local, o.Authid, o.Role, o.Xattr)
		if o.Net != "" {
			s += fmt.Sprintf("[%s/%d]", o.Net, o.Ser%3)
		}
	case "leave":
		s += fmt.Sprintf("(how=%d)", o.How)
	default:
		if o.URI != "" || o.Kind == "sub" || o.Kind == "pub" {
			s += fmt.Sprintf("(%q)", o.URI)
		}
		if len(o.Opts) > 0 {
			s += CanonVal(o.Opts)
		}
		if o.Kind == "meta" {
			s += CanonVal(o.Args) + CanonVal(o.Kw)
		}
		if o.Kind == "unsub" || o.Kind == "unreg" || o.Kind == "yield" || o.Kind == "inverr" || o.Kind == "cancel" {
			s += fmt.Sprintf("[k=%d,var=%d]", o.K, o.Var)
		}
	}
	return s
}

func SOpsSample(ops []SOp, c *Ctx, max int) string {
	var parts []string
	for i, op := range ops {
		if !c.Kept(i) {
			continue
		}
		if len(parts) >= max {
			parts = append(parts, "...")
			break
		}
		parts = append(parts, op.String())
	}
	return strings.Join(parts, " ; ")
}

func (q *Seq) cur(slot int) (*Sess, int) {
	if slot < 0 || slot >= len(q.curIdx) || q.curIdx[slot] < 0 {
		return nil, -1
	}
	i := q.curIdx[slot]
	return q.Slots[i], i
}

// Exec runs one step. Returns false if the step was skipped (precondition not met).
func (q *Seq) Exec(op SOp) bool {
	q.Step++
	c := q.C
	for len(q.curIdx) <= op.Slot {
		q.curIdx = append(q.curIdx, -1)
	}
	s, idx := q.cur(op.Slot)
	if op.Kind == "join" {
		if s != nil {
			return false
		}
		if q.Realms[op.Realm] == nil {
			return false
		}
		return q.execJoin(op)
	}
	if op.Kind == "rmrealm" {
		r := q.Realms[op.Realm]
		if r == nil {
			return false
		}
		c.Fault("remove_realm")
		q.W.R.RemoveRealm(wamp.URI(op.Realm))
		q.Settle()
		var exp []Exp
		for i, x := range q.Slots {
			if x != nil && string(x.Realm) == op.Realm {
				exp = append(exp, Exp{To: i, Text: "GOODBYE(wamp.close.system_shutdown)"})
			}
		}
		q.IgnoreMetaOnce = true
		q.Compare(r, op.String(), exp, nil)
		q.IgnoreMetaOnce = false
		for i, x := range q.Slots {
			if x != nil && string(x.Realm) == op.Realm {
				x.Left = true
				q.retire(x)
				q.Slots[i] = nil
				for slot, ci := range q.curIdx {
					if ci == i {
						q.curIdx[slot] = -1
					}
				}
			}
		}
		delete(q.Realms, op.Realm)
		for _, o := range q.Realms {
			q.Compare(o, op.String()+" [other realm "+o.M.URI+"]", nil, nil)
		}
		return true
	}
	if op.Kind == "addrealm" {
		if q.Realms[op.Realm] != nil || q.MkRealm == nil {
			return false
		}
		cfg, m := q.MkRealm(op.Realm)
		if err := q.W.R.AddRealm(cfg); err != nil {
			c.Violf("step %d (%s): AddRealm failed: %v", q.Step, op.String(), err)
			return true
		}
		q.AddRealm(m)
		q.Settle()
		for _, o := range q.Realms {
			q.Compare(o, op.String()+" [realm "+o.M.URI+"]", nil, nil)
		}
		return true
	}
	if s == nil {
		return false
	}
	r := q.Realms[string(s.Realm)]
	m := r.M
	what := op.String()
	if op.Kind == "refburst" {
		// Several requests the Authorizer will refuse, handed over back to
		// back without waiting for the answers (a pipelining client): each
		// must be answered with its own ERROR - or, if the session's queue
		// was full at that moment, not at all (the router reports that) -
		// and none may have any effect (the model does not change).
		az, azLocal := q.authzOf(r)
		if az == nil || (s.Local && !azLocal) {
			return false
		}
		authid := q.MS[idx].Details["authid"]
		uris := []string{"a", "a.b", "b", "p.a", "p.b", "p.a.b", "t.x", "a.c", "p.a.x", "a.b.c"}
		want := 2 + op.Var%3
		var msgs []wamp.Message
		var exp []Exp
		for i := 0; len(msgs) < want && i < 80; i++ {
			u := wamp.URI(uris[(op.K+i)%len(uris)])
			var msg wamp.Message
			switch (op.K + i/3) % 4 {
			case 0:
				msg = &wamp.Subscribe{Options: wamp.Dict{}, Topic: u}
			case 1:
				msg = &wamp.Register{Options: wamp.Dict{}, Procedure: u}
			case 2:
				msg = &wamp.Publish{Options: wamp.Dict{"acknowledge": true}, Topic: u, Arguments: wamp.List{"burst"}}
			default:
				msg = &wamp.Call{Options: wamp.Dict{}, Procedure: u, Arguments: wamp.List{"burst"}}
			}
			dec := az.Decide(authid, msg)
			if dec != authzDeny && dec != authzFail {
				continue
			}
			rq := s.NextReq()
			switch x := msg.(type) {
			case *wamp.Subscribe:
				x.Request = rq
			case *wamp.Register:
				x.Request = rq
			case *wamp.Publish:
				x.Request = rq
			case *wamp.Call:
				x.Request = rq
			}
			uri := "wamp.error.not_authorized"
			if dec == authzFail {
				uri = "wamp.error.authorization_failed"
			}
			msgs = append(msgs, msg)
			exp = append(exp, Exp{To: idx, Text: errText(msg.MessageType(), rq, uri)})
		}
		if len(msgs) < 2 {
			return false
		}
		before := q.W.Log.authzDrops
		for _, msg := range msgs {
			if !s.Send(msg) {
				c.Violf("step %d (%s): router did not take the message", q.Step, what)
				return true
			}
		}
		q.Settle()
		c.Probe("authz_refused_pipelined")
		q.optionalTo = map[int]int{idx: q.W.Log.authzDrops - before}
		q.Compare(r, what, exp, nil)
		q.optionalTo = nil
		return true
	}
	// the message gets private copies of the payload: an in-process recipient
	// that modifies what it receives must not reach the model's copy
	modelArgs, modelKw := op.Args, op.Kw
	op.Args, _ = deepVal(op.Args).(wamp.List)
	op.Kw, _ = deepVal(op.Kw).(wamp.Dict)
	sentArgs, sentKw := op.Args, op.Kw
	req := s.NextReq()
	nowMs := int64(c.S.Elapsed() / 1e6)
	switch op.Kind {
	case "sub":
		msg := &wamp.Subscribe{Request: req, Options: op.Opts, Topic: wamp.URI(op.URI)}
		if !q.sendGated(s, idx, r, what, msg) {
			return true
		}
		q.Compare(r, what, m.Subscribe(idx, req, msg.Options, string(msg.Topic)), nil)
	case "unsub":
		sym, actual := q.pickSub(r, idx, op)
		if !q.sendGated(s, idx, r, what, &wamp.Unsubscribe{Request: req, Subscription: actual}) {
			return true
		}
		q.Compare(r, what+fmt.Sprintf("->S#%d", sym), m.Unsubscribe(idx, req, sym), nil)
	case "pub":
		if len(op.Args) > 1 && (s.NetC != nil || s.WSC != nil) {
			if _, unser := op.Args[1].(complex128); unser {
				return false // a networked publisher cannot even send it
			}
		}
		msg := &wamp.Publish{Request: req, Options: op.Opts, Topic: wamp.URI(op.URI), Arguments: op.Args, ArgumentsKw: op.Kw}
		if !q.sendGated(s, idx, r, what, msg) {
			return true
		}
		exp, psym := m.Publish(idx, req, msg.Options, string(msg.Topic), modelArgs, modelKw, nowMs)
		if psym != 0 {
			r.B.pubTopic[psym] = string(msg.Topic)
		}
		if len(exp) > 1 {
			c.Probe("publish_multi_recipient")
		}
		if len(modelArgs) > 1 {
			if _, unser := modelArgs[1].(complex128); unser {
				// no serializer can encode it: a recipient behind a network
				// transport loses this message as a whole (and nothing else)
				var keep []Exp
				for _, e := range exp {
					if rs := q.Slots[e.To]; rs != nil && (rs.NetC != nil || rs.WSC != nil) && strings.HasPrefix(e.Text, "EVENT(") {
						c.Probe("unserializable_dropped")
						continue
					}
					keep = append(keep, e)
				}
				exp = keep
			}
		}
		q.Compare(r, what, exp, nil)
	case "reg":
		msg := &wamp.Register{Request: req, Options: op.Opts, Procedure: wamp.URI(op.URI)}
		if !q.sendGated(s, idx, r, what, msg) {
			return true
		}
		q.Compare(r, what, m.Register(idx, req, msg.Options, string(msg.Procedure)), nil)
	case "unreg":
		sym, actual := q.pickReg(r, idx, op)
		if !q.sendGated(s, idx, r, what, &wamp.Unregister{Request: req, Registration: actual}) {
			return true
		}
		q.Compare(r, what+fmt.Sprintf("->R#%d", sym), m.Unregister(idx, req, sym), nil)
	case "chunk":
		// a further chunk of one of this session's progressive call invocations
		var open []*MCall
		for _, k := range m.Calls {
			// (not for calls the callee has answered finally meanwhile: a caller that has its final
			// reply sends no further chunk; what one would cause is not specified)
			if !k.Done && k.Caller == idx && k.InProg && k.Callee >= 0 {
				open = append(open, k)
			}
		}
		if len(open) == 0 {
			return false
		}
		k := open[op.K%len(open)]
		opts := wamp.Dict{}
		if op.Prog {
			opts["progress"] = true
		}
		msg := &wamp.Call{Request: k.Req, Options: opts, Procedure: wamp.URI(k.Proc), Arguments: op.Args, ArgumentsKw: op.Kw}
		if !q.sendGated(s, idx, r, what, msg) {
			return true
		}
		c.Probe("progressive_call_chunk")
		exp, _ := m.Call(idx, k.Req, opts, k.Proc, modelArgs, modelKw)
		q.Compare(r, what+fmt.Sprintf("->req %d", k.Req), exp, nil)
	case "call":
		if p, _ := op.Opts["progress"].(bool); p && !m.has(idx, "caller.progressive_call_invocations") {
			// using the feature unannounced is a protocol violation (C04's subject), not a call
			o := wamp.Dict{}
			for k, v := range op.Opts {
				if k != "progress" {
					o[k] = v
				}
			}
			op.Opts = o
		}
		msg := &wamp.Call{Request: req, Options: op.Opts, Procedure: wamp.URI(op.URI), Arguments: op.Args, ArgumentsKw: op.Kw}
		if !q.sendGated(s, idx, r, what, msg) {
			return true
		}
		if q.callReqs == nil {
			q.callReqs = map[int][]wamp.ID{}
		}
		q.callReqs[idx] = append(q.callReqs[idx], req)
		exp, call := m.Call(idx, req, msg.Options, string(msg.Procedure), modelArgs, modelKw)
		if call != nil {
			c.Probe("call_routed")
			if call.Callee < 0 {
				c.Probe("call_policy_choice")
			}
		}
		q.Compare(r, what, exp, call)
		m.ArmTimeout(call, nowMs)
	case "yield", "inverr":
		sym, actual := q.pickInv(r, idx, op)
		if k := m.callByInv(idx, sym); k != nil && k.InProg && !(op.Kind == "yield" && op.Prog) {
			// a final answer while the caller is still sending chunks completes the call (the
			// model's "limbo": no time-out, nothing to cancel; further chunks are left open)
			c.Probe("final_answer_during_progressive_call_invocation")
		}
		var msg wamp.Message
		opts := wamp.Dict{}
		if op.Prog && op.Kind == "yield" {
			opts["progress"] = true
		}
		if op.Kind == "yield" {
			msg = &wamp.Yield{Request: actual, Options: opts, Arguments: op.Args, ArgumentsKw: op.Kw}
		} else {
			msg = &wamp.Error{Type: wamp.INVOCATION, Request: actual, Details: wamp.Dict{}, Error: wamp.URI(op.URI), Arguments: op.Args, ArgumentsKw: op.Kw}
		}
		if !q.sendGated(s, idx, r, what, msg) {
			return true
		}
		var exp []Exp
		if op.Kind == "yield" {
			exp = m.Yield(idx, sym, op.Prog, modelArgs, modelKw)
		} else {
			exp = m.InvError(idx, sym, op.URI, modelArgs, modelKw)
		}
		q.Compare(r, what+fmt.Sprintf("->I#%d", sym), exp, nil)
	case "cancel":
		creq := q.pickCall(r, idx, op)
		if !q.sendGated(s, idx, r, what, &wamp.Cancel{Request: creq, Options: op.Opts}) {
			return true
		}
		q.Compare(r, what+fmt.Sprintf("->req %d", creq), m.Cancel(idx, creq, op.Opts), nil)
	case "sleep":
		// advance the clock, stopping at every router-side call deadline on
		// the way: nothing may happen up to 1 ms before it, the timeout must
		// have happened at it
		target := nowMs + int64(op.K)
		for {
			now := int64(c.S.Elapsed() / time.Millisecond)
			d := m.NextDeadline()
			if d == 0 || d > target {
				break
			}
			if d-1 > now {
				time.Sleep(time.Duration(d-1-now) * time.Millisecond)
				q.Settle()
				q.Compare(r, what+" [before deadline]", nil, nil)
			}
			now = int64(c.S.Elapsed() / time.Millisecond)
			if d > now {
				time.Sleep(time.Duration(d-now) * time.Millisecond)
			}
			q.Settle()
			c.Probe("router_timeout_expired")
			q.Compare(r, what+fmt.Sprintf(" [deadline t=%dms]", d), m.Expire(d), nil)
		}
		if now := int64(c.S.Elapsed() / time.Millisecond); target > now {
			time.Sleep(time.Duration(target-now) * time.Millisecond)
		}
		q.Settle()
		q.Compare(r, what, nil, nil)
	case "meta":
		args, refs := q.resolveMetaArgs(r, op.Args)
		op.Kw = q.resolveHistKw(r, op.Kw, refs)
		if !q.sendGated(s, idx, r, what, &wamp.Call{Request: req, Options: wamp.Dict{}, Procedure: wamp.URI(op.URI), Arguments: args, ArgumentsKw: op.Kw}) {
			return true
		}
		want, render, eff := m.Meta(idx, req, op.URI, args, op.Kw, refs, q.MetaKill && !m.NoKill)
		if want == metaErr(req, "wamp.error.no_such_procedure") {
			// not provided by the realm (kill procedures disabled): an ordinary
			// call, which a client's pattern registration may match
			exp, call := m.Call(idx, req, wamp.Dict{}, op.URI, args, op.Kw)
			q.Compare(r, what+" [as ordinary call]", exp, call)
			break
		}
		if render != nil {
			q.metaRender[invKey{idx, req}] = render
		}
		if strings.Contains(want, "events:[P#") {
			c.Probe("history_query_nonempty")
		}
		exp := []Exp{{To: idx, Text: want}}
		if strings.Contains(want, "|") {
			exp = []Exp{{To: idx, Alt: strings.Split(want, "|")}}
		}
		c.Probe("meta_call")
		if eff != nil {
			for _, k := range eff.Kill {
				reason := eff.Reason
				if reason == "" {
					reason = "wamp.close.normal"
				}
				if eff.All {
					exp = append(exp, Exp{To: k, Alt: []string{"GOODBYE(" + reason + ")", "GOODBYE(" + reason + ")+all"}})
				} else {
					exp = append(exp, Exp{To: k, Text: "GOODBYE(" + reason + ")"})
				}
			}
			for _, k := range eff.Kill {
				exp = append(exp, m.Leave(k, true)...)
				c.Fault("meta_kill")
			}
		}
		if eff != nil && len(eff.Kill) > 1 {
			// several sessions end at once, in no particular order: whether
			// one of them still sees the others' departure is not determined
			q.lenientTo = map[int]bool{}
			for _, k := range eff.Kill {
				q.lenientTo[k] = true
				if ks := q.Slots[k]; ks != nil {
					q.maskIDs = append(q.maskIDs, fmt.Sprint(ks.ID))
				}
			}
		}
		q.Compare(r, what+" "+CanonVal(args), exp, nil)
		q.lenientTo = nil
		q.maskIDs = nil
		if eff != nil {
			for _, k := range eff.Kill {
				ks := q.Slots[k]
				for slot, ci := range q.curIdx {
					if ci == k {
						q.curIdx[slot] = -1
					}
				}
				if ks != nil {
					ks.Left = true
					q.retire(ks)
					q.Slots[k] = nil
				}
			}
		}
	case "leave":
		var exp []Exp
		if az, azLocal := q.authzOf(r); op.How == 2 && az != nil && (!s.Local || azLocal) {
			// whether an Authorizer is asked about a message no client may send, before the
			// session is aborted for sending it, is not specified: lose the transport instead
			op.How = 1
		}
		switch op.How {
		case 0:
			s.Send(&wamp.Goodbye{Reason: wamp.CloseRealm, Details: wamp.Dict{}})
			s.Left = true
			exp = append(exp, Exp{To: idx, Text: "GOODBYE(wamp.close.goodbye_and_out)"})
		case 1:
			c.Fault("disconnect")
			s.CloseTransport()
		case 2:
			c.Fault("protocol_violation")
			s.Send(&wamp.Welcome{ID: 1, Details: wamp.Dict{}})
			s.Left = true
			exp = append(exp, Exp{To: idx, Text: "ABORT(wamp.error.protocol_violation)"})
		}
		q.Settle()
		exp = append(exp, m.Leave(idx, true)...)
		q.Compare(r, what, exp, nil)
		q.curIdx[op.Slot] = -1
		q.retire(s)
		q.Slots[idx] = nil
	default:
		return false
	}
	if len(q.Realms) > 1 {
		for _, o := range q.Realms {
			if o != r {
				q.Compare(o, what+" [other realm "+o.M.URI+"]", nil, nil)
			}
		}
	}
	if q.CheckSenderPayload && (payload(sentArgs, sentKw) != payload(modelArgs, modelKw)) {
		c.Violf("step %d (%s): the sender's own payload objects were modified by a recipient: now %s", q.Step, what, payload(sentArgs, sentKw))
	}
	return true
}

// sendGated sends msg, settles, and applies the authorizer gate of the model:
// a message the Authorizer refuses (or fails on) must only produce the ERROR;
// proceed=false then. An allowed message continues in the form the
// Authorizer left it (the caller reads the fields back from msg).
// authzOf: the Authorizer configured for r's realm.
func (q *Seq) authzOf(r *SeqRealm) (*TableAuthz, bool) {
	if r.M.Authz != nil {
		return r.M.Authz, r.M.LocalAuthz
	}
	return q.Authz, q.LocalAuthz
}

func (q *Seq) sendGated(s *Sess, idx int, r *SeqRealm, what string, msg wamp.Message) bool {
	dec := authzAllow
	if az, azLocal := q.authzOf(r); az != nil && (!s.Local || azLocal) {
		dec = az.Decide(q.MS[idx].Details["authid"], msg)
	}
	if !s.Send(msg) {
		q.C.Violf("step %d (%s): router did not take the message", q.Step, what)
		return false
	}
	q.Settle()
	switch dec {
	case authzDeny, authzFail:
		q.C.Probe("authz_refused")
		uri := "wamp.error.not_authorized"
		if dec == authzFail {
			uri = "wamp.error.authorization_failed"
		}
		var exp []Exp
		req, hasReq := msgRequest(msg)
		if pub, ok := msg.(*wamp.Publish); ok {
			if ack, _ := pub.Options["acknowledge"].(bool); !ack {
				hasReq = false
			}
		}
		if hasReq {
			exp = []Exp{{To: idx, Text: errText(msg.MessageType(), req, uri)}}
		}
		q.Compare(r, what+" [refused]", exp, nil)
		return false
	case authzRewrite:
		q.C.Probe("authz_rewritten")
	}
	return true
}

func msgRequest(m wamp.Message) (wamp.ID, bool) {
	switch x := m.(type) {
	case *wamp.Publish:
		return x.Request, true
	case *wamp.Subscribe:
		return x.Request, true
	case *wamp.Unsubscribe:
		return x.Request, true
	case *wamp.Register:
		return x.Request, true
	case *wamp.Unregister:
		return x.Request, true
	case *wamp.Call:
		return x.Request, true
	case *wamp.Cancel:
		return x.Request, true
	case *wamp.Yield:
		return x.Request, true
	}
	return 0, false
}

func (q *Seq) execJoin(op SOp) bool {
	c := q.C
	if op.Net != "" {
		op.Local = false
	}
	realm := op.Realm
	r := q.Realms[realm]
	hello := wamp.Dict{"roles": op.Roles}
	if op.Authid != "" {
		hello["authid"] = op.Authid
	}
	if op.Xattr != "" {
		hello["xattr"] = op.Xattr
	}
	if !op.Local {
		hello["authmethods"] = wamp.List{"vstatic"}
	}
	name := fmt.Sprintf("s%d.%d", op.Slot, len(q.Slots))
	var s *Sess
	sz := []serialize.Serialization{serialize.JSON, serialize.MSGPACK, serialize.CBOR}[op.Ser%3]
	switch op.Net {
	case "raw":
		s = q.W.NewRawSess(c, name, wamp.URI(realm), sz, 0, 0, 64, q.NetFaults, hello)
		if s == nil {
			c.Violf("step %d (%s): rawsocket handshake failed", q.Step, op.String())
			return true
		}
		c.Probe("session_over_rawsocket")
	case "ws":
		s = q.W.NewWSSess(c, name, wamp.URI(realm), sz, 64, 64, 0, hello)
		c.Probe("session_over_websocket")
	default:
		qs := 64
		if op.QSize > 0 {
			qs = op.QSize
		}
		s = q.W.NewSess(name, wamp.URI(realm), op.Local, qs, hello)
	}
	idx := len(q.Slots)
	q.Slots = append(q.Slots, s)
	s.Scribble = op.Scribble && op.Local
	s.TransportDetails = op.Transport
	if !s.Join() {
		c.Violf("step %d (%s): join refused: %v", q.Step, op.String(), s.Abort)
		q.Slots[idx] = nil
		return true
	}
	q.curIdx[op.Slot] = idx
	ms := &MSess{Idx: idx, ID: s.ID, Local: op.Local, Details: map[string]string{}, Feat: featSet(op.Roles)}
	for _, k := range []string{"authid", "authrole"} {
		if v, ok := wamp.AsString(s.Welcome.Details[k]); ok {
			ms.Details[k] = v
		}
	}
	if op.Xattr != "" {
		ms.Details["xattr"] = op.Xattr
	}
	q.MS = append(q.MS, ms)
	q.Settle()
	q.Compare(r, op.String(), r.M.Join(ms), nil)
	if az, _ := q.authzOf(r); !q.historyLearnt[realm] && az == nil {
		q.historyLearnt[realm] = true
		q.LearnHistorySubs(op.Slot)
	}
	return true
}

// otherRealm returns another realm's state (for cross-realm attempts), or nil.
func (q *Seq) otherRealm(r *SeqRealm, k int) *SeqRealm {
	var names []string
	for n, x := range q.Realms {
		if x != r {
			names = append(names, n)
		}
	}
	if len(names) == 0 {
		return nil
	}
	sort.Strings(names)
	return q.Realms[names[k%len(names)]]
}

func (q *Seq) pickSub(r *SeqRealm, idx int, op SOp) (int, wamp.ID) {
	if op.Var == 3 {
		if o := q.otherRealm(r, op.K); o != nil {
			for _, sub := range o.M.Subs {
				if !sub.Deleted && len(sub.Subs) > 0 {
					actual := o.B.subRev[sub.Sym]
					q.C.Probe("cross_realm_unsubscribe")
					return r.B.sub[actual], actual // in this realm that number names our own object, or nothing
				}
			}
		}
		return 0, wamp.ID(777000 + op.K)
	}
	var own, other []*MSub
	for _, sub := range r.M.Subs {
		if sub.Deleted {
			continue
		}
		if contains(sub.Subs, idx) {
			own = append(own, sub)
		} else {
			other = append(other, sub)
		}
	}
	pick := func(l []*MSub) (int, wamp.ID) {
		s := l[op.K%len(l)]
		return s.Sym, r.B.subRev[s.Sym]
	}
	switch {
	case op.Var == 0 && len(own) > 0:
		return pick(own)
	case op.Var == 1 && len(other) > 0:
		q.C.Probe("unsubscribe_foreign")
		return pick(other)
	case op.Var == 0 && len(other) > 0 && len(own) == 0:
		return 0, wamp.ID(777000 + op.K)
	}
	return 0, wamp.ID(777000 + op.K)
}

func (q *Seq) pickReg(r *SeqRealm, idx int, op SOp) (int, wamp.ID) {
	if op.Var == 3 {
		if o := q.otherRealm(r, op.K); o != nil {
			for _, reg := range o.M.Regs {
				if !reg.Deleted {
					actual := o.B.regRev[reg.Sym]
					q.C.Probe("cross_realm_unregister")
					return r.B.reg[actual], actual
				}
			}
		}
		return 0, wamp.ID(777000 + op.K)
	}
	var own, other []*MReg
	for _, reg := range r.M.Regs {
		if reg.Deleted {
			continue
		}
		if contains(reg.Callees, idx) {
			own = append(own, reg)
		} else {
			other = append(other, reg)
		}
	}
	pick := func(l []*MReg) (int, wamp.ID) {
		s := l[op.K%len(l)]
		return s.Sym, r.B.regRev[s.Sym]
	}
	switch {
	case op.Var == 0 && len(own) > 0:
		return pick(own)
	case op.Var == 1 && len(other) > 0:
		q.C.Probe("unregister_foreign")
		return pick(other)
	}
	return 0, wamp.ID(777000 + op.K)
}

// pickInv: an outstanding invocation of this callee (var 0), of another
// callee (var 1: same numeric id space, so it may collide with an own one),
// or an unknown id (var 2).
func (q *Seq) pickInv(r *SeqRealm, idx int, op SOp) (int, wamp.ID) {
	if op.Var == 3 {
		if o := q.otherRealm(r, op.K); o != nil {
			for _, c := range o.M.Calls {
				if !c.Done && c.Callee >= 0 {
					actual := o.B.invRev[c.InvSym].req
					q.C.Probe("cross_realm_yield")
					// the same number may name one of our own invocations
					for _, own := range r.M.Calls {
						if !own.Done && own.Callee == idx && r.B.invRev[own.InvSym].req == actual {
							return own.InvSym, actual
						}
					}
					return 0, actual
				}
			}
		}
		return 0, wamp.ID(555000 + op.K)
	}
	var own, other []*MCall
	for _, c := range r.M.Calls {
		if c.Done || c.Callee < 0 {
			continue
		}
		if c.Callee == idx {
			own = append(own, c)
		} else {
			other = append(other, c)
		}
	}
	switch {
	case op.Var == 0 && len(own) > 0:
		c := own[op.K%len(own)]
		return c.InvSym, r.B.invRev[c.InvSym].req
	case op.Var == 1 && len(other) > 0:
		c := other[op.K%len(other)]
		actual := r.B.invRev[c.InvSym].req
		// does this numeric id also name one of our own invocations?
		for _, o := range own {
			if r.B.invRev[o.InvSym].req == actual {
				return o.InvSym, actual
			}
		}
		q.C.Probe("answer_foreign_invocation")
		return 0, actual
	}
	return 0, wamp.ID(555000 + op.K)
}

func (q *Seq) pickCall(r *SeqRealm, idx int, op SOp) wamp.ID {
	if op.Var == 4 {
		// a CANCEL that names a finished (answered, refused, timed out, cancelled) call of its own
		var past []wamp.ID
		for _, id := range q.callReqs[idx] {
			if r.M.callByReq(idx, id) == nil {
				past = append(past, id)
			}
		}
		if len(past) > 0 {
			q.C.Probe("cancel_finished_call")
			return past[op.K%len(past)]
		}
		return wamp.ID(666000 + op.K)
	}
	if op.Var == 3 {
		if o := q.otherRealm(r, op.K); o != nil {
			for _, c := range o.M.Calls {
				if !c.Done {
					q.C.Probe("cross_realm_cancel")
					return c.Req
				}
			}
		}
		return wamp.ID(666000 + op.K)
	}
	var own, other []*MCall
	for _, c := range r.M.Calls {
		if c.Done {
			continue
		}
		if c.Caller == idx {
			own = append(own, c)
		} else {
			other = append(other, c)
		}
	}
	switch {
	case op.Var == 0 && len(own) > 0:
		return own[op.K%len(own)].Req
	case op.Var == 1 && len(other) > 0:
		q.C.Probe("cancel_foreign")
		return other[op.K%len(other)].Req
	}
	return wamp.ID(666000 + op.K)
}

// resolveMetaArgs turns "@S:k", "@R:k", "@sess:slot", "@S?", "@R?", "@sess?"
// placeholders into actual ids, and tells the model what they mean.
func (q *Seq) resolveMetaArgs(r *SeqRealm, in wamp.List) (wamp.List, map[int]MetaRef) {
	out := wamp.List{}
	refs := map[int]MetaRef{}
	for i, a := range in {
		str, ok := a.(string)
		if !ok || !strings.HasPrefix(str, "@") {
			out = append(out, a)
			continue
		}
		var k int
		switch {
		case strings.HasPrefix(str, "@S:"):
			fmt.Sscanf(str[3:], "%d", &k)
			var live []*MSub
			for _, x := range r.M.Subs {
				if !x.Deleted {
					live = append(live, x)
				}
			}
			if len(live) == 0 {
				out = append(out, wamp.ID(888001))
				refs[i] = MetaRef{Class: "S"}
				continue
			}
			x := live[k%len(live)]
			out = append(out, r.B.subRev[x.Sym])
			refs[i] = MetaRef{Class: "S", Sym: x.Sym}
		case strings.HasPrefix(str, "@R:"):
			fmt.Sscanf(str[3:], "%d", &k)
			var live []*MReg
			for _, x := range r.M.Regs {
				if !x.Deleted {
					live = append(live, x)
				}
			}
			if len(live) == 0 {
				out = append(out, wamp.ID(888002))
				refs[i] = MetaRef{Class: "R"}
				continue
			}
			x := live[k%len(live)]
			out = append(out, r.B.regRev[x.Sym])
			refs[i] = MetaRef{Class: "R", Sym: x.Sym}
		case strings.HasPrefix(str, "@sess:"):
			fmt.Sscanf(str[6:], "%d", &k)
			if sess, idx := q.cur(k); sess != nil {
				out = append(out, sess.ID)
				refs[i] = MetaRef{Class: "sess", Sym: idx}
			} else {
				out = append(out, wamp.ID(888003))
				refs[i] = MetaRef{Class: "sess", Sym: -1}
			}
		case str == "@S?":
			out = append(out, wamp.ID(888004))
			refs[i] = MetaRef{Class: "S"}
		case str == "@R?":
			out = append(out, wamp.ID(888005))
			refs[i] = MetaRef{Class: "R"}
		default:
			out = append(out, wamp.ID(888006))
			refs[i] = MetaRef{Class: "sess", Sym: -1}
		}
	}
	return out, refs
}

// resolveHistKw replaces "@P:k[:type]" values of the *_publication filters by
// the actual id of the k-th retained publication of the subscription named in
// args[0], in the requested numeric representation, and records the model
// meaning in refs[100..103].
func (q *Seq) resolveHistKw(r *SeqRealm, kw wamp.Dict, refs map[int]MetaRef) wamp.Dict {
	if kw == nil {
		return nil
	}
	out := wamp.Dict{}
	for k, v := range kw {
		out[k] = v
	}
	sub := r.M.subBySym(refs[0].Sym)
	for _, key := range []string{"from_time", "after_time", "before_time", "until_time"} {
		v, ok := out[key].(string)
		if !ok || !strings.HasPrefix(v, "@T:") {
			continue
		}
		var k int
		fmt.Sscanf(v[3:], "%d", &k)
		t := int64(q.C.S.Elapsed() / time.Millisecond)
		if sub != nil && sub.Hist != nil && len(sub.Hist.Entries) > 0 {
			t = sub.Hist.Entries[k%len(sub.Hist.Entries)].T
		}
		out[key] = time.UnixMilli(HistEpoch + t).UTC().Format(time.RFC3339Nano)
	}
	for i, key := range []string{"from_publication", "after_publication", "before_publication", "until_publication"} {
		v, ok := out[key].(string)
		if !ok || !strings.HasPrefix(v, "@P:") {
			continue
		}
		var k int
		typ := "id"
		parts := strings.Split(v[3:], ":")
		fmt.Sscanf(parts[0], "%d", &k)
		if len(parts) > 1 {
			typ = parts[1]
		}
		var actual wamp.ID = 999999
		if sub != nil && sub.Hist != nil && len(sub.Hist.Entries) > 0 {
			e := sub.Hist.Entries[k%len(sub.Hist.Entries)]
			if a, ok := r.B.pubRev[e.PubSym]; ok {
				actual = a
				refs[100+i] = MetaRef{Class: "P", Sym: e.PubSym}
			}
		}
		if _, ok := refs[100+i]; !ok {
			refs[100+i] = MetaRef{Class: "P", Sym: -1} // names nothing that is retained
		}
		switch typ {
		case "u64":
			out[key] = uint64(actual)
		case "i64":
			out[key] = int64(actual)
		case "f64":
			out[key] = float64(actual)
		default:
			out[key] = actual
		}
	}
	return out
}
