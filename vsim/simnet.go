package vsim

import (
	"errors"
	"fmt"
	"github.com/gammazero/nexus/v3/router"
	"io"
	"net"
	"os"
	"time"
	"unsafe"

	"github.com/gammazero/nexus/v3/simrt"
	"github.com/gammazero/nexus/v3/transport"
	"github.com/gammazero/nexus/v3/transport/serialize"
	"github.com/gammazero/nexus/v3/wamp"
)

// Simulated network: SimConn implements net.Conn over a pair of bounded byte
// pipes; FakeWS implements transport.WebsocketConnection over message pipes.
// All blocking is done on channels, which simgen turns into yield points, so
// the seeded scheduler decides how reads and writes of the real transport
// goroutines interleave.

// NetFaults are the per-connection fault parameters (drawn from the run's PRNG).
type NetFaults struct {
	MaxFrag     int // a Read returns at most this many bytes (0: unlimited)
	Window      int // bytes in flight per direction before a Write blocks
	ResetAfterC int // close the connection after this many client->server bytes (0: never)
	ResetAfterS int // ... server->client bytes
	WriteErrS   int // the n-th server-side Write fails (0: never)
}

// netTok orders, for the race detector, the operations on one simulated
// connection the way the kernel's socket buffers do in reality (what is read was
// written before). The stubs' own fields are shared between the two ends by
// design; the scheduler serialises them.
type netTok struct{ v int64 }

func (t *netTok) enter() { simrt.RaceAcquire(unsafe.Pointer(&t.v)) }
func (t *netTok) leave() { simrt.RaceRelease(unsafe.Pointer(&t.v)) }

type pipeHalf struct {
	tok     *netTok
	buf     []byte
	window  int
	wclosed bool // writer side closed: reader gets EOF after draining
	rclosed bool // reader side closed: writer gets an error
	data    chan struct{}
	space   chan struct{}
	wlock   chan struct{} // one Write at a time (as on a real socket)
	written int
	resetAt int
	frag    int
	stalled bool // receiver not reading (fault)
	resume  chan struct{}
}

func newHalf(window, frag, resetAt int) *pipeHalf {
	if window <= 0 {
		window = 1 << 16
	}
	return &pipeHalf{window: window, frag: frag, resetAt: resetAt, data: make(chan struct{}), space: make(chan struct{}), wlock: make(chan struct{}, 1), resume: make(chan struct{})}
}

// wake releases everybody waiting on *ch. The channel is replaced before
// the old one is closed: closing is a yield point in this (instrumented)
// code, and another goroutine may call wake meanwhile.
func (h *pipeHalf) wake(ch *chan struct{}) {
	h.tok.leave() // closing is a yield point: publish first
	old := *ch
	*ch = make(chan struct{})
	close(old)
}

// SimConn is one end of a simulated stream connection.
type SimConn struct {
	name              string
	rd, wr            *pipeHalf
	closed            bool
	peer              *SimConn
	c                 *Ctx
	nWrite            int
	werrAt            int
	BytesIn, BytesOut int
	tok               *netTok
	rdl, wdl          time.Time // read / write deadlines (zero: none), as on a net.Conn
}

// expiry returns a channel that fires at the deadline (nil: never) and a stop function.
func expiry(dl time.Time) (<-chan time.Time, func()) {
	if dl.IsZero() {
		return nil, func() {}
	}
	t := time.NewTimer(time.Until(dl))
	return t.C, func() { t.Stop() }
}

// NewSimConnPair returns (client end, server end).
func NewSimConnPair(c *Ctx, name string, f NetFaults) (*SimConn, *SimConn) {
	c2s := newHalf(f.Window, f.MaxFrag, f.ResetAfterC)
	s2c := newHalf(f.Window, f.MaxFrag, f.ResetAfterS)
	tok := &netTok{}
	c2s.tok, s2c.tok = tok, tok
	cl := &SimConn{name: name + ":c", rd: s2c, wr: c2s, c: c, tok: tok}
	sv := &SimConn{name: name + ":s", rd: c2s, wr: s2c, c: c, werrAt: f.WriteErrS, tok: tok}
	cl.peer, sv.peer = sv, cl
	return cl, sv
}

var errConnClosed = errors.New("simconn: use of closed connection")
var errConnReset = errors.New("simconn: connection reset by peer")

func (s *SimConn) Read(p []byte) (int, error) {
	h := s.rd
	defer s.tok.leave()
	expired, stop := expiry(s.rdl)
	defer stop()
	for {
		s.tok.enter()
		if s.closed {
			return 0, errConnClosed
		}
		if len(h.buf) > 0 {
			n := len(p)
			if n > len(h.buf) {
				n = len(h.buf)
			}
			if h.frag > 0 && n > h.frag {
				n = h.frag
				s.c.Fault("net_fragmented_read")
			}
			copy(p, h.buf[:n])
			h.buf = h.buf[n:]
			s.BytesIn += n
			h.wake(&h.space)
			return n, nil
		}
		if h.wclosed {
			return 0, io.EOF
		}
		s.tok.leave()
		select {
		case <-h.data:
		case <-expired:
			s.tok.enter()
			return 0, os.ErrDeadlineExceeded
		}
	}
}

func (s *SimConn) Write(p []byte) (int, error) {
	h := s.wr
	expired, stop := expiry(s.wdl)
	defer stop()
	select {
	case h.wlock <- struct{}{}:
	case <-expired:
		return 0, os.ErrDeadlineExceeded
	}
	defer func() { <-h.wlock }()
	s.tok.enter()
	defer s.tok.leave()
	s.nWrite++
	if s.werrAt > 0 && s.nWrite == s.werrAt {
		s.c.Fault("net_write_error")
		s.abort()
		return 0, errConnReset
	}
	done := 0
	for done < len(p) {
		if s.closed || h.wclosed {
			return done, errConnClosed
		}
		if h.rclosed {
			return done, errConnReset
		}
		room := h.window - len(h.buf)
		if room <= 0 {
			s.c.Probe("net_writer_blocked_window_full")
			s.tok.leave()
			select {
			case <-h.space:
			case <-expired:
				// part of p is on its way, the rest never will be
				s.tok.enter()
				s.c.Fault("net_write_deadline_mid_frame")
				return done, os.ErrDeadlineExceeded
			}
			s.tok.enter()
			continue
		}
		n := len(p) - done
		if n > room {
			n = room
		}
		if h.resetAt > 0 && h.written+n >= h.resetAt {
			// the connection dies in the middle of this write
			n = h.resetAt - h.written
			h.buf = append(h.buf, p[done:done+n]...)
			h.written += n
			s.c.Fault("net_reset_mid_stream")
			s.abort()
			return done + n, errConnReset
		}
		h.buf = append(h.buf, p[done:done+n]...)
		h.written += n
		done += n
		s.BytesOut += n
		h.wake(&h.data)
	}
	return done, nil
}

// abort kills both directions (reset).
func (s *SimConn) abort() {
	for _, e := range []*SimConn{s, s.peer} {
		if !e.closed {
			e.wr.wclosed = true
			e.rd.rclosed = true
		}
	}
	for _, h := range []*pipeHalf{s.rd, s.wr} {
		h.wake(&h.data)
		h.wake(&h.space)
	}
}

func (s *SimConn) Close() error {
	s.tok.enter()
	defer s.tok.leave()
	if s.closed {
		return errConnClosed
	}
	s.closed = true
	s.wr.wclosed = true
	s.rd.rclosed = true
	s.wr.wake(&s.wr.data)
	s.wr.wake(&s.wr.space)
	s.rd.wake(&s.rd.data)
	s.rd.wake(&s.rd.space)
	return nil
}

type simAddr string

func (a simAddr) Network() string { return "sim" }
func (a simAddr) String() string  { return string(a) }

func (s *SimConn) LocalAddr() net.Addr                { return simAddr(s.name) }
func (s *SimConn) RemoteAddr() net.Addr               { return simAddr(s.peer.name) }
func (s *SimConn) SetDeadline(t time.Time) error      { s.rdl, s.wdl = t, t; return nil }
func (s *SimConn) SetReadDeadline(t time.Time) error  { s.rdl = t; return nil }
func (s *SimConn) SetWriteDeadline(t time.Time) error { s.wdl = t; return nil }

// ---- fake websocket ----------------------------------------------------------

type wsFrame struct {
	typ  int
	data []byte
}

type wsHalf struct {
	tok    *netTok
	q      []wsFrame
	cap    int
	closed bool
	data   chan struct{}
	space  chan struct{}
	wlock  chan struct{}
}

func newWSHalf(capacity int) *wsHalf {
	if capacity <= 0 {
		capacity = 64
	}
	return &wsHalf{cap: capacity, data: make(chan struct{}), space: make(chan struct{}), wlock: make(chan struct{}, 1)}
}

// FakeWS is one end of a simulated websocket (gorilla's framing is not simulated).
type FakeWS struct {
	name      string
	rd, wr    *wsHalf
	closed    bool
	proto     string
	pingH     func(string) error
	pongH     func(string) error
	c         *Ctx
	peer      *FakeWS
	nWrite    int
	werrAt    int
	tok       *netTok
	isWriting bool
}

const (
	wsText   = 1
	wsBinary = 2
	wsClose  = 8
	wsPing   = 9
	wsPong   = 10
)

func NewFakeWSPair(c *Ctx, name, subprotocol string, capacity int, writeErrAtServer int) (*FakeWS, *FakeWS) {
	c2s, s2c := newWSHalf(capacity), newWSHalf(capacity)
	tok := &netTok{}
	c2s.tok, s2c.tok = tok, tok
	cl := &FakeWS{name: name + ":c", rd: s2c, wr: c2s, proto: subprotocol, c: c, tok: tok}
	sv := &FakeWS{name: name + ":s", rd: c2s, wr: s2c, proto: subprotocol, c: c, werrAt: writeErrAtServer, tok: tok}
	cl.peer, sv.peer = sv, cl
	return cl, sv
}

func (h *wsHalf) wake(ch *chan struct{}) {
	h.tok.leave() // closing is a yield point: publish first
	old := *ch
	*ch = make(chan struct{})
	close(old)
}

func (f *FakeWS) Close() error {
	f.tok.enter()
	defer f.tok.leave()
	return f.close()
}

func (f *FakeWS) close() error {
	if f.closed {
		return nil
	}
	f.closed = true
	f.wr.closed = true
	f.rd.closed = true
	f.wr.wake(&f.wr.data)
	f.wr.wake(&f.wr.space)
	f.rd.wake(&f.rd.data)
	f.rd.wake(&f.rd.space)
	return nil
}

var errWSTimeout = errors.New("fakews: write control: i/o timeout")

// write appends one frame; with a non-zero deadline (WriteControl) it gives up
// when the write lock or room in the peer's window cannot be had in time, as
// gorilla's WriteControl does.
func (f *FakeWS) write(typ int, data []byte, deadline time.Time) error {
	h := f.wr
	var expired <-chan time.Time
	if !deadline.IsZero() {
		t := time.NewTimer(time.Until(deadline))
		defer t.Stop()
		expired = t.C
	}
	select {
	case h.wlock <- struct{}{}:
	case <-expired:
		return errWSTimeout
	}
	defer func() { <-h.wlock }()
	f.tok.enter()
	defer f.tok.leave()
	f.nWrite++
	if f.werrAt > 0 && f.nWrite == f.werrAt {
		f.c.Fault("net_write_error")
		f.close()
		return errConnReset
	}
	for {
		if f.closed || h.closed {
			return errConnClosed
		}
		if len(h.q) < h.cap {
			h.q = append(h.q, wsFrame{typ, append([]byte(nil), data...)})
			h.wake(&h.data)
			return nil
		}
		f.c.Probe("net_writer_blocked_window_full")
		f.tok.leave()
		select {
		case <-h.space:
		case <-expired:
			f.tok.enter()
			return errWSTimeout
		}
		f.tok.enter()
	}
}

func (f *FakeWS) WriteControl(messageType int, data []byte, deadline time.Time) error {
	return f.write(messageType, data, deadline)
}

// WriteMessage: like gorilla/websocket, which allows one concurrent writer
// only and panics ("concurrent write to websocket connection") when a second
// WriteMessage overlaps the first; WriteControl may be called concurrently.
func (f *FakeWS) WriteMessage(messageType int, data []byte) error {
	if f.isWriting {
		f.c.Violf("panic: concurrent write to websocket connection (two overlapping WriteMessage calls on %s; gorilla/websocket panics here)", f.name)
	}
	f.isWriting = true
	err := f.write(messageType, data, time.Time{})
	f.isWriting = false
	return err
}

func (f *FakeWS) ReadMessage() (int, []byte, error) {
	h := f.rd
	defer f.tok.leave()
	for {
		// (re-)acquire before every look at the queue: the handlers called
		// below contain yield points
		f.tok.enter()
		if f.closed {
			return 0, nil, errConnClosed
		}
		if len(h.q) > 0 {
			fr := h.q[0]
			h.q = h.q[1:]
			h.wake(&h.space)
			switch fr.typ {
			case wsPing:
				if f.pingH != nil {
					f.pingH(string(fr.data))
				}
				continue
			case wsPong:
				if f.pongH != nil {
					f.pongH(string(fr.data))
				}
				continue
			case wsClose:
				return 0, nil, errors.New("websocket: close 1000 (normal)")
			}
			return fr.typ, fr.data, nil
		}
		if h.closed {
			return 0, nil, io.EOF
		}
		f.tok.leave()
		<-h.data
	}
}
func (f *FakeWS) SetPongHandler(h func(string) error) { f.pongH = h }
func (f *FakeWS) SetPingHandler(h func(string) error) { f.pingH = h }
func (f *FakeWS) Subprotocol() string                 { return f.proto }

// ---- sessions over the simulated network ------------------------------------------

var wsProto = map[serialize.Serialization]string{serialize.JSON: "wamp.2.json", serialize.MSGPACK: "wamp.2.msgpack", serialize.CBOR: "wamp.2.cbor"}

func serializerOf(sz serialize.Serialization) (serialize.Serializer, int) {
	switch sz {
	case serialize.MSGPACK:
		return &serialize.MessagePackSerializer{}, wsBinary
	case serialize.CBOR:
		return &serialize.CBORSerializer{}, wsBinary
	}
	return &serialize.JSONSerializer{}, wsText
}

// NewRawSess creates a session whose client and router ends are real
// rawsocket peers over a SimConn. The server side repeats the few lines of
// RawSocketServer.handleRawSocket. Returns nil if the handshake failed.
func (w *World) NewRawSess(c *Ctx, name string, realm wamp.URI, sz serialize.Serialization, cliRecvLimit, srvRecvLimit, qsize int, f NetFaults, hello wamp.Dict) *Sess {
	cc, sc := NewSimConnPair(c, name, f)
	s := &Sess{W: w, Idx: len(w.Sess), Name: name, Realm: realm, Local: false, QSize: qsize, ctl: make(chan int), Dead: make(chan struct{}), closeReq: make(chan struct{}), Hello: hello}
	s.NetC, s.NetS = cc, sc
	w.Sess = append(w.Sess, s)
	simrt.Go("attach:"+name, func() {
		peer, err := transport.AcceptRawSocket(sc, w.Log, srvRecvLimit, qsize)
		if err != nil {
			s.AttErr = err
			s.attDone = true
			return
		}
		s.Rtr = peer
		s.AttErr = w.R.Attach(peer)
		s.attDone = true
	})
	peer, err := transport.VerifClientHandshake(cc, w.Log, sz, cliRecvLimit)
	if err != nil {
		s.AttErr = fmt.Errorf("client handshake: %w", err)
		return nil
	}
	s.Cli = peer
	s.selfAttached = true
	return s
}

// NewWSSess: the same over a FakeWS pair.
func (w *World) NewWSSess(c *Ctx, name string, realm wamp.URI, sz serialize.Serialization, qsize, capacity int, keepAlive time.Duration, hello wamp.Dict) *Sess {
	cw, sw := NewFakeWSPair(c, name, wsProto[sz], capacity, 0)
	s := &Sess{W: w, Idx: len(w.Sess), Name: name, Realm: realm, Local: false, QSize: qsize, ctl: make(chan int), Dead: make(chan struct{}), closeReq: make(chan struct{}), Hello: hello}
	s.WSC, s.WSS = cw, sw
	w.Sess = append(w.Sess, s)
	// the websocket server's own per-connection code (its protocol table with one
	// serializer instance per sub-protocol shared by all connections, its settings);
	// the router it attaches to is a tap that tells the harness which peer it made.
	// A server is set up before it serves: here, not in the connection's goroutine.
	srv := w.wsServerFor(qsize, keepAlive)
	simrt.Go("attach:"+name, func() {
		srv.VerifHandleWebsocket(sw, wamp.Dict{attachTapKey: s})
		s.attDone = true
	})
	ser2, pt2 := serializerOf(sz)
	s.Cli = transport.NewWebsocketPeer(cw, ser2, pt2, w.Log, 0, 0)
	s.selfAttached = true
	return s
}

// attachTap is the Router handed to the real WebsocketServer: it notes the
// peer the server created for a connection and passes the attach on.
type attachTap struct {
	router.Router
}

const attachTapKey = "vsim.sess"

func (t attachTap) AttachClient(p wamp.Peer, details wamp.Dict) error {
	var s *Sess
	if details != nil {
		s, _ = details[attachTapKey].(*Sess)
	}
	if s == nil {
		return t.Router.AttachClient(p, details)
	}
	s.Rtr = p
	s.AttErr = t.Router.AttachClient(p, nil)
	return s.AttErr
}

// wsServerFor returns this world's websocket server with the given settings
// (one per distinct settings: connections with equal settings share a server
// and with it the serializer instances, as in a deployment).
func (w *World) wsServerFor(qsize int, keepAlive time.Duration) *router.WebsocketServer {
	for _, e := range w.wss {
		if e.OutQueueSize == qsize && e.KeepAlive == keepAlive {
			return e
		}
	}
	srv := router.NewWebsocketServer(attachTap{w.R})
	srv.OutQueueSize, srv.KeepAlive = qsize, keepAlive
	w.wss = append(w.wss, srv)
	return srv
}
