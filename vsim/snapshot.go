package vsim

import (
	"fmt"
	"sort"
	"strings"

	"github.com/gammazero/nexus/v3/router"
	"github.com/gammazero/nexus/v3/wamp"
)

// snapshotText renders the verif hook's table sizes deterministically.
func snapshotText(w *World) string {
	snap := router.VerifSnapshot(w.R)
	var realms []string
	for uri := range snap {
		realms = append(realms, string(uri))
	}
	sort.Strings(realms)
	var b strings.Builder
	for _, uri := range realms {
		m := snap[wamp.URI(uri)]
		var keys []string
		for k := range m {
			keys = append(keys, k)
		}
		sort.Strings(keys)
		fmt.Fprintf(&b, "%s{", uri)
		for _, k := range keys {
			fmt.Fprintf(&b, "%s=%d ", k, m[k])
		}
		b.WriteString("} ")
	}
	return b.String()
}
