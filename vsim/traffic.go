package vsim

import (
	"fmt"
	"strings"
	"time"

	"github.com/gammazero/nexus/v3/simrt"
	"github.com/gammazero/nexus/v3/wamp"
)

// Traffic: well-formed concurrent workloads (publishers, subscribers,
// callers, callees) whose payloads are tagged so that monitors can attribute
// every received message. Used by C02, C06, C07, C08.

const (
	tSub = iota
	tUnsub
	tPub
	tReg
	tUnreg
	tCall
	tCancel
	tSleep
	tLeave
	tClose
	tStall
	tResume
	tMeta
	tProgCall // progressive call invocation chunks (caller side)
)

var tKindName = [...]string{"sub", "unsub", "pub", "reg", "unreg", "call", "cancel", "sleep", "leave", "close", "stall", "resume", "meta", "progcall"}

// TOp is one client operation of a traffic script.
type TOp struct {
	Sess    int
	Kind    int
	URI     wamp.URI
	Match   string
	Invoke  string
	Opts    wamp.Dict
	Mode    string
	D       time.Duration
	Until   time.Duration // tSleep: sleep until this virtual time (since the run started) instead of for D
	Args    wamp.List
	Chunks  int
	WaitAck bool // wait (virtual time bounded) for the reply before the next op
}

func (o TOp) String() string {
	s := fmt.Sprintf("s%d:%s", o.Sess, tKindName[o.Kind])
	if o.URI != "" {
		s += "(" + string(o.URI)
		if o.Match != "" {
			s += "," + o.Match
		}
		if o.Invoke != "" {
			s += "," + o.Invoke
		}
		s += ")"
	}
	if o.Mode != "" {
		s += "[" + o.Mode + "]"
	}
	if o.D != 0 {
		s += fmt.Sprintf("[%v]", o.D)
	}
	if o.Until != 0 {
		s += fmt.Sprintf("[until %v]", o.Until)
	}
	if len(o.Opts) > 0 {
		s += CanonVal(o.Opts)
	}
	return s
}

// Sent records a message handed to the router.
type Sent struct {
	Seq int
	T   time.Duration
	Msg wamp.Message
	OK  bool
}

// CallRec tracks one CALL issued by a traffic client.
type CallRec struct {
	Req      wamp.ID
	Tag      string
	Proc     wamp.URI
	SentSeq  int
	SentT    time.Duration
	Timeout  int64
	Progress bool
	Cancels  []string
	Disclose bool // disclose_me
}

// InvRec tracks one INVOCATION received by a traffic client.
type InvRec struct {
	Req         wamp.ID
	Tag         string
	Seq         int
	T           time.Duration
	Final       bool // this callee sent a final answer
	ByYield     bool // ... and it was a YIELD (the dealer retries a RESULT the caller cannot take yet)
	FinalT      time.Duration
	FinalSeq    int
	Interrupted bool
}

// TClient is a traffic session with its bookkeeping.
type TClient struct {
	*Sess
	Beh       int
	SlowDelay time.Duration
	Out       []Sent
	SubIDs    []wamp.ID       // acknowledged subscription ids, in order
	SubReq    map[wamp.ID]TOp // request -> op
	SubByID   map[wamp.ID]TOp // subscription id -> op
	RegIDs    []wamp.ID
	RegReq    map[wamp.ID]TOp
	Calls     []*CallRec
	Invs      []*InvRec
	pubSeq    map[wamp.URI]int
	pubDiscl  map[string]bool // "<tag>#<seq>" of publications made with disclose_me
	ChunkAt   map[wamp.ID][]int // request -> scheduling steps at which the client decided to send a further chunk (it had seen no final reply then)
	RegByID   map[wamp.ID]TOp // registration id -> the REGISTER op that was acknowledged with it
	callSeq   int
	Done      bool
	features  wamp.Dict
}

const (
	BehSlow    = 10 + iota // answer after SlowDelay (in a goroutine)
	BehTwice               // answer twice
	BehForeign             // also answer with a request id that is not ours
)

func NewTClient(s *Sess, beh int, slow time.Duration) *TClient {
	t := &TClient{Sess: s, Beh: beh, SlowDelay: slow, SubReq: map[wamp.ID]TOp{}, SubByID: map[wamp.ID]TOp{}, RegReq: map[wamp.ID]TOp{}, pubSeq: map[wamp.URI]int{}, pubDiscl: map[string]bool{}, RegByID: map[wamp.ID]TOp{}, ChunkAt: map[wamp.ID][]int{}}
	s.OnRecv = t.onRecv
	return t
}

// SendRec sends and records.
func (t *TClient) SendRec(m wamp.Message) bool {
	ok := t.Send(m)
	t.Out = append(t.Out, Sent{Seq: t.W.S.StepCount(), T: t.W.S.Elapsed(), Msg: m, OK: ok})
	return ok
}

func tagOf(args wamp.List) string {
	if len(args) > 0 {
		if s, ok := args[0].(string); ok {
			return s
		}
	}
	return ""
}

func (t *TClient) onRecv(s *Sess, m wamp.Message) {
	switch x := m.(type) {
	case *wamp.Subscribed:
		if op, ok := t.SubReq[x.Request]; ok {
			t.SubIDs = append(t.SubIDs, x.Subscription)
			t.SubByID[x.Subscription] = op
		}
	case *wamp.Registered:
		if op, ok := t.RegReq[x.Request]; ok {
			t.RegIDs = append(t.RegIDs, x.Registration)
			if d, _ := t.RegByID[x.Registration].Opts["disclose_caller"].(bool); !d {
				t.RegByID[x.Registration] = op // (an acknowledged REGISTER with disclose_caller is remembered)
			}
		}
	case *wamp.Interrupt:
		for _, iv := range t.Invs {
			if iv.Req == x.Request {
				iv.Interrupted = true
			}
		}
	case *wamp.Invocation:
		prog, _ := x.Details["progress"].(bool)
		var iv *InvRec
		for _, old := range t.Invs {
			if old.Req == x.Request && !old.Final {
				iv = old // a further chunk of a progressive call invocation
			}
		}
		if iv == nil {
			iv = &InvRec{Req: x.Request, Tag: tagOf(x.Arguments), Seq: t.W.S.StepCount(), T: t.W.S.Elapsed()}
			t.Invs = append(t.Invs, iv)
		}
		if prog {
			return // answer only the last chunk
		}
		// like a real client: the handler runs beside the reader, which must
		// never be blocked by a send
		simrt.GoIn(t.Party(), "op:handler:"+t.Name, func() { t.answer(iv, x) })
	}
}

func (t *TClient) final(iv *InvRec) {
	iv.Final = true
	iv.FinalT = t.W.S.Elapsed()
	iv.FinalSeq = t.W.S.StepCount()
}

func (t *TClient) answer(iv *InvRec, x *wamp.Invocation) {
	yield := func() {
		if t.SendRec(&wamp.Yield{Request: x.Request, Options: wamp.Dict{}, Arguments: x.Arguments, ArgumentsKw: x.ArgumentsKw}) {
			if !iv.Final {
				iv.ByYield = true
			}
			t.final(iv)
		}
	}
	switch t.Beh {
	case BehEcho:
		yield()
	case BehError:
		if t.SendRec(&wamp.Error{Type: wamp.INVOCATION, Request: x.Request, Details: wamp.Dict{}, Error: "app.error.fail", Arguments: x.Arguments}) {
			t.final(iv)
		}
	case BehIgnore:
	case BehProgress:
		if rp, _ := x.Details["receive_progress"].(bool); rp {
			for i := 0; i < 3; i++ {
				if !t.SendRec(&wamp.Yield{Request: x.Request, Options: wamp.Dict{"progress": true}, Arguments: wamp.List{iv.Tag, i}}) {
					return
				}
			}
		}
		yield()
	case BehSlow:
		simrt.GoIn(t.Party(), "op:slow:"+t.Name, func() {
			time.Sleep(t.SlowDelay)
			yield()
		})
	case BehTwice:
		yield()
		t.SendRec(&wamp.Yield{Request: x.Request, Options: wamp.Dict{}, Arguments: wamp.List{iv.Tag, "dup"}})
	case BehForeign:
		t.SendRec(&wamp.Yield{Request: x.Request + 1000, Options: wamp.Dict{}, Arguments: wamp.List{"foreign"}})
		t.SendRec(&wamp.Error{Type: wamp.INVOCATION, Request: x.Request + 2000, Details: wamp.Dict{}, Error: "app.error.foreign"})
		yield()
	}
}

// Exec runs one op; returns false when the session is finished.
func (t *TClient) Exec(c *Ctx, op TOp) bool {
	switch op.Kind {
	case tSub:
		req := t.NextReq()
		t.SubReq[req] = op
		o := wamp.Dict{}
		if op.Match != "" {
			o["match"] = op.Match
		}
		if !t.SendRec(&wamp.Subscribe{Request: req, Options: o, Topic: op.URI}) {
			return false
		}
		if op.WaitAck {
			t.Await(2*time.Minute, func(m wamp.Message) bool {
				switch x := m.(type) {
				case *wamp.Subscribed:
					return x.Request == req
				case *wamp.Error:
					return x.Request == req
				}
				return false
			})
		}
	case tUnsub:
		if len(t.SubIDs) == 0 {
			return true
		}
		id := t.SubIDs[len(t.SubIDs)-1]
		t.SubIDs = t.SubIDs[:len(t.SubIDs)-1]
		return t.SendRec(&wamp.Unsubscribe{Request: t.NextReq(), Subscription: id})
	case tPub:
		t.pubSeq[op.URI]++
		o := wamp.Dict{}
		for k, v := range op.Opts {
			o[k] = v
		}
		args := wamp.List{fmt.Sprintf("p:%s:%s", t.Name, op.URI), t.pubSeq[op.URI]}
		if d, _ := o["disclose_me"].(bool); d {
			t.pubDiscl[fmt.Sprintf("p:%s:%s#%d", t.Name, op.URI, t.pubSeq[op.URI])] = true
		}
		if op.Chunks > 0 {
			args = append(args, strings.Repeat("x", op.Chunks)) // a large event among small ones
		}
		return t.SendRec(&wamp.Publish{Request: t.NextReq(), Options: o, Topic: op.URI, Arguments: args})
	case tReg:
		req := t.NextReq()
		t.RegReq[req] = op
		o := wamp.Dict{}
		if op.Match != "" {
			o["match"] = op.Match
		}
		if op.Invoke != "" {
			o["invoke"] = op.Invoke
		}
		for k, v := range op.Opts {
			o[k] = v
		}
		if !t.SendRec(&wamp.Register{Request: req, Options: o, Procedure: op.URI}) {
			return false
		}
		if op.WaitAck {
			t.Await(2*time.Minute, func(m wamp.Message) bool {
				switch x := m.(type) {
				case *wamp.Registered:
					return x.Request == req
				case *wamp.Error:
					return x.Request == req
				}
				return false
			})
		}
	case tUnreg:
		if len(t.RegIDs) == 0 {
			return true
		}
		id := t.RegIDs[len(t.RegIDs)-1]
		t.RegIDs = t.RegIDs[:len(t.RegIDs)-1]
		return t.SendRec(&wamp.Unregister{Request: t.NextReq(), Registration: id})
	case tCall:
		req := t.NextReq()
		t.callSeq++
		tag := fmt.Sprintf("c:%s:%d", t.Name, t.callSeq)
		o := wamp.Dict{}
		for k, v := range op.Opts {
			o[k] = v
		}
		cr := &CallRec{Req: req, Tag: tag, Proc: op.URI}
		if to, ok := wamp.AsInt64(o["timeout"]); ok {
			cr.Timeout = to
		}
		cr.Progress, _ = o["receive_progress"].(bool)
		cr.Disclose, _ = o["disclose_me"].(bool)
		ok := t.SendRec(&wamp.Call{Request: req, Options: o, Procedure: op.URI, Arguments: wamp.List{tag}})
		cr.SentSeq, cr.SentT = t.W.S.StepCount(), t.W.S.Elapsed()
		if ok {
			t.Calls = append(t.Calls, cr)
		}
		return ok
	case tProgCall:
		req := t.NextReq()
		t.callSeq++
		tag := fmt.Sprintf("c:%s:%d", t.Name, t.callSeq)
		cr := &CallRec{Req: req, Tag: tag, Proc: op.URI}
		if to, ok := wamp.AsInt64(op.Opts["timeout"]); ok {
			cr.Timeout = to
		}
		cr.Progress, _ = op.Opts["receive_progress"].(bool)
		chunks := op.Chunks
		if t.Stalled {
			// a client that is not reading cannot notice that its call was
			// already answered, and would keep reusing the request id
			chunks = 1
		}
		for i := 0; i < chunks; i++ {
			o := wamp.Dict{"progress": i < chunks-1}
			for k, v := range op.Opts {
				o[k] = v // receive_progress, timeout: as given with the first chunk
			}
			t.ChunkAt[req] = append(t.ChunkAt[req], t.W.S.StepCount())
			if !t.SendRec(&wamp.Call{Request: req, Options: o, Procedure: op.URI, Arguments: wamp.List{tag, i}}) {
				return false
			}
			if i == 0 {
				cr.SentSeq, cr.SentT = t.W.S.StepCount(), t.W.S.Elapsed()
				t.Calls = append(t.Calls, cr)
			}
			// like a real client: once the call has been answered finally, no
			// further chunk is sent under that request id
			simrt.WaitQuiescent("chunk")
			if t.hasFinal(req) {
				break
			}
		}
	case tCancel:
		if len(t.Calls) == 0 {
			return true
		}
		cr := t.Calls[len(t.Calls)-1-op.Chunks%len(t.Calls)]
		o := wamp.Dict{}
		if op.Mode != "" {
			o["mode"] = op.Mode
		}
		ok := t.SendRec(&wamp.Cancel{Request: cr.Req, Options: o})
		if ok {
			cr.Cancels = append(cr.Cancels, op.Mode)
		}
		return ok
	case tSleep:
		if op.Until > 0 {
			if d := op.Until - t.W.S.Elapsed(); d > 0 {
				time.Sleep(d)
			}
		} else {
			time.Sleep(op.D)
		}
	case tLeave:
		c.Fault("goodbye")
		if t.SendRec(&wamp.Goodbye{Reason: wamp.CloseNormal, Details: wamp.Dict{}}) {
			t.Left = true
		} else {
			// the router did not take the GOODBYE within the client's
			// patience (its handler for this session is busy): like a real
			// client, drop the connection instead
			t.CloseTransport()
		}
		return false
	case tClose:
		c.Fault("disconnect")
		t.CloseTransport()
		return false
	case tStall:
		c.Fault("client_stall")
		t.Stall()
	case tResume:
		t.Resume()
	case tMeta:
		req := t.NextReq()
		t.callSeq++
		cr := &CallRec{Req: req, Tag: "meta", Proc: op.URI}
		ok := t.SendRec(&wamp.Call{Request: req, Options: wamp.Dict{}, Procedure: op.URI, Arguments: op.Args})
		cr.SentSeq, cr.SentT = t.W.S.StepCount(), t.W.S.Elapsed()
		if ok {
			t.Calls = append(t.Calls, cr)
		}
		return ok
	}
	return true
}

// TrafficCfg tunes the generator.
type TrafficCfg struct {
	NSess      int
	OpsPerSess int
	Faults     bool // leave/close/stall ops
	Timeouts   bool
	Cancels    bool
	Meta       bool
	Kills      bool
	SetupRegs  bool // every callee registers its procedures first and waits for the ack
	Stalls     bool // stall/resume ops only (slow readers that stay attached)
}

var trafficTopics = []wamp.URI{"t.a", "t.b", "t.a.x"}
var trafficProcs = []wamp.URI{"p.a", "p.b", "p.shared"}

// GenTraffic draws a script.
func GenTraffic(g *Rand, tc TrafficCfg) []TOp {
	var ops []TOp
	for s := 0; s < tc.NSess; s++ {
		// set-up: a subscription and a registration per session so that traffic meets
		ops = append(ops, TOp{Sess: s, Kind: tSub, URI: PickOf(g, trafficTopics), Match: g.Pick("", "", "prefix"), WaitAck: true})
		if s%2 == 0 || g.Bool() {
			if g.Chance(1, 3) {
				ops = append(ops, TOp{Sess: s, Kind: tReg, URI: "p.shared", Invoke: "roundrobin", WaitAck: true})
			} else {
				ops = append(ops, TOp{Sess: s, Kind: tReg, URI: wamp.URI(fmt.Sprintf("p.s%d", s)), WaitAck: true})
			}
		}
	}
	for s := 0; s < tc.NSess; s++ {
		n := g.Range(tc.OpsPerSess/2, tc.OpsPerSess)
		for i := 0; i < n; i++ {
			var op TOp
			op.Sess = s
			w := []int{2, 1, 8, 2, 1, 8, 0, 1, 0, 0, 0, 0, 0, 1}
			if tc.Cancels {
				w[tCancel] = 3
			}
			if tc.Faults {
				w[tLeave], w[tClose], w[tStall], w[tResume] = 1, 1, 1, 1
			}
			if tc.Meta {
				w[tMeta] = 2
			}
			if tc.Stalls {
				w[tStall], w[tResume], w[tSleep] = 1, 2, 2
			}
			op.Kind = g.Weighted(w...)
			switch op.Kind {
			case tSub:
				op.URI = PickOf(g, trafficTopics)
				op.Match = g.Pick("", "prefix", "wildcard")
				if op.Match == "wildcard" {
					op.URI = "t..x"
				}
				if op.Match == "prefix" {
					op.URI = "t."
				}
			case tPub:
				op.URI = PickOf(g, trafficTopics)
				op.Opts = wamp.Dict{}
				if g.Bool() {
					op.Opts["acknowledge"] = true
				}
				if g.Bool() {
					op.Opts["exclude_me"] = false
				}
				if g.Chance(1, 8) {
					op.Chunks = []int{600, 3000, 5000, 9000}[g.Intn(4)] // payload padding
				}
				if g.Chance(1, 6) {
					op.Opts["disclose_me"] = true
				}
				if g.Chance(1, 5) {
					// receiver filters: the broker looks at every subscriber's session details
					switch g.Intn(4) {
					case 0:
						op.Opts["exclude"] = wamp.List{424242}
					case 1:
						op.Opts["eligible_authrole"] = wamp.List{"anonymous", "trusted"}
					case 2:
						op.Opts["exclude_authid"] = wamp.List{"nobody"}
					case 3:
						op.Opts["eligible"] = wamp.List{}
					}
				}
			case tReg:
				op.URI = PickOf(g, trafficProcs)
				if op.URI == "p.shared" {
					op.Invoke = g.Pick("roundrobin", "first", "last", "random")
				}
				if g.Chance(1, 4) {
					op.Opts = wamp.Dict{"disclose_caller": true}
				}
			case tCall, tProgCall:
				if g.Chance(2, 3) {
					op.URI = wamp.URI(fmt.Sprintf("p.s%d", g.Intn(tc.NSess)))
				} else {
					op.URI = PickOf(g, trafficProcs)
				}
				op.Opts = wamp.Dict{}
				if g.Bool() {
					op.Opts["receive_progress"] = true
				}
				if tc.Timeouts && g.Chance(1, 3) {
					op.Opts["timeout"] = []int{1, 5, 100, 1000, 30000, 90000}[g.Intn(6)]
				}
				if op.Kind == tCall && g.Chance(1, 5) {
					op.Opts["disclose_me"] = true
				}
				op.Chunks = g.Range(2, 3)
			case tCancel:
				op.Mode = g.Pick("", "skip", "kill", "killnowait")
				op.Chunks = g.Intn(3)
			case tSleep:
				op.D = time.Duration([]int{1, 5, 50, 1000, 20000}[g.Intn(5)]) * time.Millisecond
			case tMeta:
				op.URI = wamp.URI(g.Pick("wamp.session.count", "wamp.session.list", "wamp.registration.list", "wamp.subscription.list", "wamp.registration.match", "wamp.subscription.match"))
				if strings.HasSuffix(string(op.URI), "match") {
					op.Args = wamp.List{"p.a"}
				}
				if tc.Kills && g.Chance(1, 3) {
					op.URI = wamp.URI(g.Pick("wamp.session.kill_all", "wamp.session.kill_by_authrole"))
					op.Args = wamp.List{"trusted"}
				}
			}
			ops = append(ops, op)
		}
	}
	return ops
}

// RunTraffic executes the kept ops, one actor goroutine per session, and
// returns when all actors are done.
func RunTraffic(c *Ctx, clients []*TClient, ops []TOp, base int) {
	done := make(chan int)
	for i, cl := range clients {
		simrt.GoIn(cl.Party(), "actor:"+cl.Name, func() {
			defer func() { cl.Done = true; done <- i }()
			for k, op := range ops {
				if op.Sess != i || !c.Kept(base+k) {
					continue
				}
				if !cl.Exec(c, op) {
					return
				}
			}
		})
	}
	for range clients {
		<-done
	}
}

func opsSample(ops []TOp, c *Ctx, base int, max int) string {
	var parts []string
	for k, op := range ops {
		if !c.Kept(base + k) {
			continue
		}
		if len(parts) >= max {
			parts = append(parts, "...")
			break
		}
		parts = append(parts, op.String())
	}
	return strings.Join(parts, " ; ")
}

func (t *TClient) hasFinal(req wamp.ID) bool {
	for _, r := range t.Inbox {
		switch x := r.Msg.(type) {
		case *wamp.Result:
			if p, _ := x.Details["progress"].(bool); !p && x.Request == req {
				return true
			}
		case *wamp.Error:
			if x.Type == wamp.CALL && x.Request == req {
				return true
			}
		}
	}
	return false
}
