// Package vsim is the simulation harness: it is copied into the instrumented
// scratch copy of nexus, instrumented by simgen like the code under test
// (so its channel operations are yield points too), and built into one test
// binary that runs seeded simulated executions of the real router, transports
// and client.
package vsim

import (
	"fmt"
	"regexp"
	"sort"
	"strings"
	"time"

	"github.com/gammazero/nexus/v3/router"
	"github.com/gammazero/nexus/v3/simrt"
	"github.com/gammazero/nexus/v3/transport"
	"github.com/gammazero/nexus/v3/wamp"
)

// ringLog is the router's logger: last lines kept for reports, never hashed.
type ringLog struct {
	lines      []string
	n          int
	drops      map[string]int // session id -> messages the router dropped to it (queue full)
	authzDrops int            // refusals the router could not answer because the client's queue was full
}

var dropRe = regexp.MustCompile(`^!!! Dropped \S+ to (?:session|caller) (\d+): blocked`)

func (l *ringLog) add(s string) {
	if simrt.RaceEnabled {
		// unsynchronised by design (the scheduler serialises); in the race
		// build the log is off, so that it neither trips the detector nor
		// orders the router's goroutines for it
		return
	}
	if strings.HasPrefix(s, "!!! client blocked, could not send authz error") {
		l.authzDrops++
	}
	if strings.HasPrefix(s, "!!! Dropped") {
		if m := dropRe.FindStringSubmatch(s); m != nil {
			if l.drops == nil {
				l.drops = map[string]int{}
			}
			l.drops[m[1]]++
		}
	}
	if len(l.lines) < 400 {
		l.lines = append(l.lines, s)
	} else {
		l.lines[l.n%400] = s
	}
	l.n++
}
func (l *ringLog) Print(v ...any) {
	if !simrt.RaceEnabled {
		l.add(fmt.Sprint(v...))
	}
}
func (l *ringLog) Println(v ...any) {
	if !simrt.RaceEnabled {
		l.add(fmt.Sprint(v...))
	}
}
func (l *ringLog) Printf(f string, v ...any) {
	if !simrt.RaceEnabled {
		l.add(fmt.Sprintf(f, v...))
	}
}
func (l *ringLog) Tail(k int) []string {
	var out []string
	start := 0
	if l.n > 400 {
		start = l.n % 400
	}
	for i := 0; i < len(l.lines); i++ {
		out = append(out, l.lines[(start+i)%len(l.lines)])
	}
	if len(out) > k {
		out = out[len(out)-k:]
	}
	return out
}

// Rcv is one message observed at a session's client side.
type Rcv struct {
	Seq  int           // scheduler step at receipt
	T    time.Duration // virtual time at receipt
	Msg  wamp.Message  // private deep copy taken at receipt (EVENT, INVOCATION, RESULT); else the message itself
	Live wamp.Message  // the object the router handed over
	Snap string        // rendering at receipt
}

func deepVal(v any) any {
	switch x := v.(type) {
	case wamp.Dict:
		if x == nil {
			return x
		}
		out := make(wamp.Dict, len(x))
		for k, e := range x {
			out[k] = deepVal(e)
		}
		return out
	case map[string]any:
		out := make(map[string]any, len(x))
		for k, e := range x {
			out[k] = deepVal(e)
		}
		return out
	case wamp.List:
		if x == nil {
			return x
		}
		out := make(wamp.List, len(x))
		for i, e := range x {
			out[i] = deepVal(e)
		}
		return out
	case []any:
		out := make([]any, len(x))
		for i, e := range x {
			out[i] = deepVal(e)
		}
		return out
	}
	return v
}

func deepMsg(m wamp.Message) wamp.Message {
	switch x := m.(type) {
	case *wamp.Event:
		c := *x
		c.Details, _ = deepVal(x.Details).(wamp.Dict)
		c.Arguments, _ = deepVal(x.Arguments).(wamp.List)
		c.ArgumentsKw, _ = deepVal(x.ArgumentsKw).(wamp.Dict)
		return &c
	case *wamp.Invocation:
		c := *x
		c.Details, _ = deepVal(x.Details).(wamp.Dict)
		c.Arguments, _ = deepVal(x.Arguments).(wamp.List)
		c.ArgumentsKw, _ = deepVal(x.ArgumentsKw).(wamp.Dict)
		return &c
	case *wamp.Result:
		c := *x
		c.Details, _ = deepVal(x.Details).(wamp.Dict)
		c.Arguments, _ = deepVal(x.Arguments).(wamp.List)
		c.ArgumentsKw, _ = deepVal(x.ArgumentsKw).(wamp.Dict)
		return &c
	}
	return m
}

// scribble: what a careless in-process recipient might do to a message.
func scribble(m wamp.Message) {
	switch x := m.(type) {
	case *wamp.Event:
		if x.Details != nil {
			x.Details["scribbled"] = true
			delete(x.Details, "publisher")
		}
		if len(x.Arguments) > 0 {
			x.Arguments[0] = "scribbled"
		}
		if x.ArgumentsKw != nil {
			x.ArgumentsKw["scribbled"] = true
		}
	case *wamp.Invocation:
		if x.Details != nil {
			x.Details["scribbled"] = true
		}
		if len(x.Arguments) > 0 {
			x.Arguments[0] = "scribbled"
		}
		if x.ArgumentsKw != nil {
			x.ArgumentsKw["scribbled"] = true
		}
	}
}

// nonLocalPeer wraps a linked peer so that the router treats it as a network
// peer (authentication, authorization, shared event objects) without the cost
// of serialization.
type nonLocalPeer struct{ wamp.Peer }

func (p nonLocalPeer) IsLocal() bool { return false }

// Sess is a hand-driven WAMP client attached to the simulated router.
type Sess struct {
	grp               *simrt.Group
	StallAt, ResumeAt []time.Duration // when the client stopped / resumed reading
	W                 *World
	Idx               int
	Name              string
	Realm             wamp.URI
	Cli               wamp.Peer // client end
	Rtr               wamp.Peer // router end (possibly wrapped)
	Local             bool
	QSize             int
	ID                wamp.ID
	Welcome           *wamp.Welcome
	Abort             *wamp.Abort
	Hello             wamp.Dict
	Joined            bool
	Left              bool // harness ended it (GOODBYE or close)
	AttErr            error
	attDone           bool

	Inbox            []Rcv
	RecvClosed       bool
	read             int // Inbox[:read] already consumed by Take
	ctl              chan int
	Dead             chan struct{} // closed when the client side sees its receive channel closed
	closeReq         chan struct{} // closed when the harness decides to close the client end
	sending          int           // sends in flight
	Stalled          bool
	nextReq          wamp.ID
	drainDone        bool
	draining         bool // a drainer goroutine was started
	CliClosed        bool
	SendTimeouts     int
	Scribble         bool // in-process recipient that modifies what it receives
	TransportDetails wamp.Dict
	NetC, NetS       *SimConn // simulated stream connection (rawsocket sessions)
	WSC, WSS         *FakeWS  // simulated websocket (websocket sessions)
	selfAttached     bool     // the router side is attached by the transport glue
	awaited          map[int]bool
	OnRecv           func(s *Sess, m wamp.Message) // optional reactive behaviour, runs in the drainer goroutine
}

const (
	ctlStall = iota
	ctlResume
	ctlStop
)

// World is one simulated router with its sessions.
type World struct {
	wss    []*router.WebsocketServer // this world's websocket servers, one per distinct settings (shared serializers, like the real one)
	S      *simrt.Sched
	R      router.Router
	Log    *ringLog
	Sess   []*Sess
	Viol   []string
	Notes  []string
	Probes map[string]int
}

// Violf records a violation of the property under check.
func (w *World) Violf(format string, a ...any) {
	w.Viol = append(w.Viol, fmt.Sprintf(format, a...))
}

func (w *World) Probe(name string) { w.Probes[name]++ }

// NewWorld starts a router with the given config inside the running bubble.
func NewWorld(s *simrt.Sched, cfg *router.Config) (*World, error) {
	w := &World{S: s, Log: &ringLog{}, Probes: map[string]int{}}
	r, err := router.NewRouter(cfg, w.Log)
	if err != nil {
		return nil, err
	}
	w.R = r
	// websocket servers are set up before they serve: one per usual setting, made here,
	// before any client goroutine exists (see wsServerFor)
	for _, q := range []int{1, 2, 3, 4, 8, 64, 256, 512, 4096} {
		for _, ka := range []time.Duration{0, 9 * time.Second} {
			srv := router.NewWebsocketServer(attachTap{r})
			srv.OutQueueSize, srv.KeepAlive = q, ka
			w.wss = append(w.wss, srv)
		}
	}
	return w, nil
}

// AllFeatures is a HELLO roles dict announcing every client feature.
func AllFeatures() wamp.Dict {
	return wamp.Dict{
		"publisher": wamp.Dict{"features": wamp.Dict{
			"subscriber_blackwhite_listing": true, "publisher_exclusion": true, "publisher_identification": true, "payload_passthru_mode": true}},
		"subscriber": wamp.Dict{"features": wamp.Dict{
			"pattern_based_subscription": true, "publisher_identification": true, "payload_passthru_mode": true}},
		"caller": wamp.Dict{"features": wamp.Dict{
			"call_canceling": true, "call_timeout": true, "caller_identification": true, "progressive_call_results": true,
			"progressive_call_invocations": true, "payload_passthru_mode": true}},
		"callee": wamp.Dict{"features": wamp.Dict{
			"call_canceling": true, "call_timeout": true, "caller_identification": true, "progressive_call_results": true,
			"progressive_call_invocations": true, "pattern_based_registration": true, "shared_registration": true, "payload_passthru_mode": true}},
	}
}

// NewSess creates (but does not attach) a session over the local transport.
func (w *World) NewSess(name string, realm wamp.URI, local bool, qsize int, hello wamp.Dict) *Sess {
	cli, rtr := transport.LinkedPeersQSize(qsize)
	s := &Sess{W: w, Idx: len(w.Sess), Name: name, Realm: realm, Cli: cli, Rtr: rtr, Local: local, QSize: qsize, ctl: make(chan int), Dead: make(chan struct{}), closeReq: make(chan struct{}), Hello: hello}
	if !local {
		s.Rtr = nonLocalPeer{rtr}
	}
	w.Sess = append(w.Sess, s)
	return s
}

// StartAttach launches the router-side attach in its own simulated goroutine.
func (s *Sess) StartAttach(transportDetails wamp.Dict) {
	simrt.Go("attach:"+s.Name, func() {
		s.AttErr = s.W.R.AttachClient(s.Rtr, transportDetails)
		s.attDone = true
	})
}

// Join performs a plain (anonymous/local) join: attach, HELLO, expect WELCOME.
// Returns false if the router answered with anything else.
func (s *Sess) Join() bool {
	if !s.selfAttached {
		s.StartAttach(s.TransportDetails)
	}
	d := wamp.Dict{}
	for k, v := range s.Hello {
		d[k] = v
	}
	if _, ok := d["roles"]; !ok {
		d["roles"] = AllFeatures()
	}
	s.Cli.Send() <- &wamp.Hello{Realm: s.Realm, Details: d}
	msg, ok := <-s.Cli.Recv()
	if !ok {
		s.RecvClosed = true
		close(s.Dead)
		return false
	}
	switch m := msg.(type) {
	case *wamp.Welcome:
		s.Welcome = m
		s.ID = m.ID
		s.Joined = true
		s.StartDrain()
		return true
	case *wamp.Abort:
		s.Abort = m
	}
	return false
}

// Party returns the group of harness goroutines playing this client (see simrt.Group).
func (s *Sess) Party() *simrt.Group {
	if s.grp == nil {
		s.grp = simrt.NewGroup()
	}
	return s.grp
}

// StartDrain starts the goroutine that reads everything the router sends.
func (s *Sess) StartDrain() {
	s.draining = true
	simrt.GoIn(s.Party(), "drain:"+s.Name, s.drain)
}

func (s *Sess) drain() {
	defer func() { s.drainDone = true }()
	recv := s.Cli.Recv()
	for {
		select {
		case msg, ok := <-recv:
			if !ok {
				s.RecvClosed = true
				simrt.Log("%s recv closed", s.Name)
				close(s.Dead)
				return
			}
			snap := Brief(msg)
			s.Inbox = append(s.Inbox, Rcv{Seq: s.W.S.StepCount(), T: s.W.S.Elapsed(), Msg: deepMsg(msg), Live: msg, Snap: snap})
			simrt.Log("%s <- %s", s.Name, snap)
			if s.Scribble {
				scribble(msg)
			}
			if s.OnRecv != nil {
				s.OnRecv(s, msg)
			}
		case c := <-s.ctl:
			switch c {
			case ctlStop:
				return
			case ctlStall:
				for stalled := true; stalled; {
					c2 := <-s.ctl
					if c2 == ctlResume {
						stalled = false
					} else if c2 == ctlStop {
						return
					}
				}
			}
		}
	}
}

// Stall makes the session stop reading (the unresponsive-client fault).
func (s *Sess) Stall() {
	if !s.drainDone && !s.Stalled {
		s.Stalled = true
		s.StallAt = append(s.StallAt, s.W.S.Elapsed())
		select {
		case s.ctl <- ctlStall:
		case <-s.Dead:
		}
	}
}

// Resume lets a stalled session read again.
func (s *Sess) Resume() {
	if !s.drainDone && s.Stalled {
		s.Stalled = false
		s.ResumeAt = append(s.ResumeAt, s.W.S.Elapsed())
		select {
		case s.ctl <- ctlResume:
		case <-s.Dead:
		}
	}
}

// Send hands a message to the router; blocks (in simulated fashion) until the
// session's handler takes it. Returns false if the session is gone.
func (s *Sess) Send(m wamp.Message) (ok bool) {
	if s.CliClosed {
		return false
	}
	return s.TrySendFor(m, SendPatience)
}

// SendPatience is how long (virtual time) a simulated client waits for the
// router to take a message before giving up. The router's session handler
// never blocks on clients, so an expiry means the handler is gone or wedged.
const SendPatience = 10 * time.Second

// TrySendFor sends, giving up after d of virtual time (router not reading).
func (s *Sess) TrySendFor(m wamp.Message, d time.Duration) bool {
	if s.CliClosed {
		return false
	}
	simrt.Log("%s -> %s", s.Name, Brief(m))
	t := time.NewTimer(d)
	defer t.Stop()
	s.sending++
	defer func() { s.sending-- }()
	select {
	case s.Cli.Send() <- m:
		return true
	case <-s.Dead:
		simrt.Log("%s send: session dead", s.Name)
		return false
	case <-s.closeReq:
		return false
	case <-t.C:
		simrt.Log("%s send timed out", s.Name)
		s.SendTimeouts++
		return false
	}
}

// CloseTransport closes the client end abruptly (lost connection).
func (s *Sess) CloseTransport() {
	if s.CliClosed {
		return
	}
	s.CliClosed = true
	s.Left = true
	simrt.Log("%s closes transport", s.Name)
	close(s.closeReq)
	// a real client closes its connection only once; sends in flight from
	// other goroutines of the simulated client give up first
	for s.sending > 0 {
		// not a spin on Yield: under the FIFO strategy that would starve
		// the sender; a 1µs virtual sleep lets everything else run first
		time.Sleep(time.Microsecond)
	}
	s.Cli.Close()
}

// NextReq returns a fresh request id for this session.
func (s *Sess) NextReq() wamp.ID {
	s.nextReq++
	return s.nextReq
}

// Take returns messages received since the previous Take.
func (s *Sess) Take() []Rcv {
	out := s.Inbox[s.read:]
	s.read = len(s.Inbox)
	return out
}

// Brief renders a message compactly and deterministically.
func Brief(m wamp.Message) string {
	if m == nil {
		return "<nil>"
	}
	return fmt.Sprintf("%s%s", m.MessageType(), CanonVal(msgFields(m)))
}

func msgFields(m wamp.Message) any {
	switch x := m.(type) {
	case *wamp.Hello:
		return []any{string(x.Realm)}
	case *wamp.Welcome:
		return []any{x.ID}
	case *wamp.Abort:
		return []any{string(x.Reason), x.Details}
	case *wamp.Goodbye:
		return []any{string(x.Reason), x.Details}
	case *wamp.Error:
		return []any{int(x.Type), x.Request, x.Details, string(x.Error), x.Arguments, x.ArgumentsKw}
	case *wamp.Publish:
		return []any{x.Request, x.Options, string(x.Topic), x.Arguments, x.ArgumentsKw}
	case *wamp.Published:
		return []any{x.Request, x.Publication}
	case *wamp.Subscribe:
		return []any{x.Request, x.Options, string(x.Topic)}
	case *wamp.Subscribed:
		return []any{x.Request, x.Subscription}
	case *wamp.Unsubscribe:
		return []any{x.Request, x.Subscription}
	case *wamp.Unsubscribed:
		return []any{x.Request}
	case *wamp.Event:
		return []any{x.Subscription, x.Publication, x.Details, x.Arguments, x.ArgumentsKw}
	case *wamp.Call:
		return []any{x.Request, x.Options, string(x.Procedure), x.Arguments, x.ArgumentsKw}
	case *wamp.Cancel:
		return []any{x.Request, x.Options}
	case *wamp.Result:
		return []any{x.Request, x.Details, x.Arguments, x.ArgumentsKw}
	case *wamp.Register:
		return []any{x.Request, x.Options, string(x.Procedure)}
	case *wamp.Registered:
		return []any{x.Request, x.Registration}
	case *wamp.Unregister:
		return []any{x.Request, x.Registration}
	case *wamp.Unregistered:
		return []any{x.Request}
	case *wamp.Invocation:
		return []any{x.Request, x.Registration, x.Details, x.Arguments, x.ArgumentsKw}
	case *wamp.Interrupt:
		return []any{x.Request, x.Options}
	case *wamp.Yield:
		return []any{x.Request, x.Options, x.Arguments, x.ArgumentsKw}
	case *wamp.Challenge:
		return []any{x.AuthMethod, x.Extra}
	case *wamp.Authenticate:
		return []any{x.Signature, x.Extra}
	}
	return fmt.Sprintf("%T", m)
}

var ptrRe = regexp.MustCompile(`0x[0-9a-f]{6,}`)

// CanonVal renders WAMP values deterministically (sorted dict keys).
func CanonVal(v any) string {
	var b strings.Builder
	canon(&b, v)
	return b.String()
}

func canon(b *strings.Builder, v any) {
	switch x := v.(type) {
	case nil:
		b.WriteString("null")
	case wamp.Dict:
		canonMap(b, x)
	case map[string]any:
		canonMap(b, x)
	case wamp.List:
		canonList(b, x)
	case []any:
		canonList(b, x)
	case []wamp.ID:
		b.WriteByte('[')
		for i, e := range x {
			if i > 0 {
				b.WriteByte(',')
			}
			fmt.Fprintf(b, "%d", e)
		}
		b.WriteByte(']')
	case string:
		if strings.Contains(x, "0x") {
			x = ptrRe.ReplaceAllString(x, "0xPTR")
		}
		fmt.Fprintf(b, "%q", x)
	case wamp.URI:
		fmt.Fprintf(b, "%q", string(x))
	case []byte:
		fmt.Fprintf(b, "b%q", string(x))
	default:
		fmt.Fprintf(b, "%v", x)
	}
}

func canonMap(b *strings.Builder, m map[string]any) {
	keys := make([]string, 0, len(m))
	for k := range m {
		keys = append(keys, k)
	}
	sort.Strings(keys)
	b.WriteByte('{')
	for i, k := range keys {
		if i > 0 {
			b.WriteByte(',')
		}
		fmt.Fprintf(b, "%q:", k)
		canon(b, m[k])
	}
	b.WriteByte('}')
}

func canonList(b *strings.Builder, l []any) {
	b.WriteByte('[')
	for i, e := range l {
		if i > 0 {
			b.WriteByte(',')
		}
		canon(b, e)
	}
	b.WriteByte(']')
}

// Await waits (in virtual time, at most max) for a message satisfying pred.
// With max==0 the message must be there once the system is quiescent at the
// current instant. Only the matched message is consumed.
func (s *Sess) Await(max time.Duration, pred func(m wamp.Message) bool) wamp.Message {
	deadline := s.W.S.Elapsed() + max
	for {
		simrt.WaitQuiescent("await")
		for i := s.read; i < len(s.Inbox); i++ {
			if !s.awaited[i] && pred(s.Inbox[i].Msg) {
				if s.awaited == nil {
					s.awaited = map[int]bool{}
				}
				s.awaited[i] = true
				return s.Inbox[i].Msg
			}
		}
		left := deadline - s.W.S.Elapsed()
		if left <= 0 || s.RecvClosed {
			return nil
		}
		step := left
		if step > 5*time.Second {
			step = 5 * time.Second
		}
		time.Sleep(step)
	}
}

// CheckImmutable: nothing delivered to a session may change afterwards.
func CheckImmutable(c *Ctx, w *World) {
	for _, s := range w.Sess {
		if s.Scribble {
			continue
		}
		for _, r := range s.Inbox {
			if r.Live == nil {
				continue
			}
			if now := Brief(r.Live); now != r.Snap {
				c.Violf("message delivered to %s changed after delivery: was %s, now %s", s.Name, r.Snap, now)
				return
			}
		}
	}
}
