package vsim

var debugC09 = false
